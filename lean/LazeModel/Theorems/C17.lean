import LazeModel.Model.Loader
import LazeModel.Theorems.C09_perm
/-! C17 — module/app defaults, context lists, the lazefile work-list, rejected duplicates; and the
    inheritance clause of C14 (var_options of a parent context apply to its descendants unless
    they define their own). Everything is about `Model/Loader.lean` as it is. -/
namespace Laze.C17
open Laze

/-! ## 1. `process_removes` -/

/-- the names removed by the `-name` entries of `l` -/
def removalsOf (l : List Dep) : List String :=
  (l.filter (·.name.startsWith "-")).map (fun d => (d.name.drop 1).toString)

theorem processRemoves_eq (l : List Dep) :
    processRemoves l = l.filter (fun d => !(d.name.startsWith "-" || (removalsOf l).contains d.name)) := rfl

theorem mem_removalsOf (l : List Dep) (n : String) :
    n ∈ removalsOf l ↔ ∃ e ∈ l, e.name.startsWith "-" = true ∧ (e.name.drop 1).toString = n := by
  simp [removalsOf, and_assoc]

/-- **process_removes, membership law**: `d` survives iff it is in the list, is not itself a
    `-name` entry, and no `-name` entry of the list names it. -/
theorem process_removes (l : List Dep) (d : Dep) :
    d ∈ processRemoves l ↔
      d ∈ l ∧ ¬ d.name.startsWith "-" = true ∧
        ∀ e ∈ l, e.name.startsWith "-" = true → (e.name.drop 1).toString ≠ d.name := by
  rw [processRemoves_eq, List.mem_filter]
  constructor
  · rintro ⟨hd, hp⟩
    simp only [Bool.not_eq_eq_eq_not, Bool.not_true, Bool.or_eq_false_iff] at hp
    refine ⟨hd, by simp [hp.1], ?_⟩
    intro e he hs heq
    have : d.name ∈ removalsOf l := (mem_removalsOf l d.name).2 ⟨e, he, hs, heq⟩
    have h2 := hp.2
    rw [List.contains_eq_mem] at h2
    simp [this] at h2
  · rintro ⟨hd, hn, hall⟩
    refine ⟨hd, ?_⟩
    simp only [Bool.not_eq_eq_eq_not, Bool.not_true, Bool.or_eq_false_iff]
    refine ⟨by simpa using hn, ?_⟩
    rw [List.contains_eq_mem]
    simp only [decide_eq_false_iff_not]
    intro hm
    obtain ⟨e, he, hs, heq⟩ := (mem_removalsOf l d.name).1 hm
    exact hall e he hs heq

/-- the survivors keep their order -/
theorem process_removes_sublist (l : List Dep) : (processRemoves l).Sublist l := by
  rw [processRemoves_eq]; exact List.filter_sublist

/-- no `-name` entry survives -/
theorem process_removes_no_dash (l : List Dep) (d : Dep) (h : d ∈ processRemoves l) :
    d.name.startsWith "-" = false := by
  have := ((process_removes l d).1 h).2.1
  simpa using this

theorem removalsOf_processRemoves (l : List Dep) : removalsOf (processRemoves l) = [] := by
  unfold removalsOf
  rw [List.map_eq_nil_iff, List.filter_eq_nil_iff]
  intro d hd
  simp [process_removes_no_dash l d hd]

/-- `process_removes` is idempotent -/
theorem process_removes_idem (l : List Dep) : processRemoves (processRemoves l) = processRemoves l := by
  conv => lhs; rw [processRemoves_eq]
  rw [removalsOf_processRemoves, List.filter_eq_self]
  intro d hd
  simp [process_removes_no_dash l d hd]

example : processRemoves [.hard "a", .hard "-a", .soft "b", .hard "a", .ifHard "c" "d", .hard "-z"]
    = [.soft "b", .ifHard "c" "d"] := by decide +kernel

/-! ## 2. defaults as prefix

`convertModule y c isB file defaults buildDir` starts from a COPY of the (already converted)
defaults module `d` (`moduleBase`) and pushes the module's own entries behind the defaults'.
Field by field (all proved below, `d` = the defaults, "own" = what the YAML module says):

* `name`         own name (or the lazefile's directory); never inherited
* `contextName`  the context being converted for, else the defaults' context (else `default`)
* `selects`      `processRemoves (d.selects ++ own selects ++ own depends)`
* `imports`      `processRemoves (d.imports ++ own uses ++ own depends)`
* `sources`      `d.sources ++ own plain sources`
* `conflicts`    `d.conflicts ++ own conflicts ++ own provides_unique ++ ::task:: markers`
* `provides`     `d.provides ++ own provides ++ own provides_unique ++ ::task:: markers`
* `blocklist`/`allowlist`  `d ++ own` when the defaults have one, else own (`extendList`)
* `envLocal`/`envExport`/`envGlobal`  early expansion of `d.env ⊕ own` (`Env.merge`; the local env
                 additionally sees the early env; apps get `appdir` in the global env)
* `notifyAll`    `own || d`
* `relpath`, `definedIn`, `isBinary`, `srcdir`, `envEarly[relpath/root/srcdir]`: always the
                 module's own (see §5) ; `build`, `download`, `isGlobalBuildDep`: own, never inherited
* `isBuildDep`   own flag, or `true` with a download
* `tasks`        own tasks (replace the defaults' when present, else the defaults' are kept)
* `sourcesOptional`, `buildDepFiles`: the defaults' table extended by the own entries. -/

/-- `a` followed by `b`; absent only when both are -/
def addOpt (a : Option (List String)) : Option (List String) → Option (List String)
  | some c => some (a.getD [] ++ c)
  | none => a

theorem addOpt_getD (a b : Option (List String)) : (addOpt a b).getD [] = a.getD [] ++ b.getD [] := by
  cases a <;> cases b <;> simp [addOpt]

theorem addOpt_isSome (a b : Option (List String)) : (addOpt a b).isSome = (a.isSome || b.isSome) := by
  cases a <;> cases b <;> simp [addOpt]

theorem addOpt_none_left (b : Option (List String)) : addOpt none b = b := by
  cases b <;> simp [addOpt]

theorem withConflicts_eq (y : YModule) (m : Module) :
    withConflicts y m = { m with conflicts := addOpt m.conflicts y.conflicts } := by
  unfold withConflicts; cases y.conflicts <;> rfl

theorem withProvides_eq (y : YModule) (m : Module) :
    withProvides y m = { m with provides := addOpt m.provides y.provides } := by
  unfold withProvides; cases y.provides <;> rfl

theorem withProvidesUnique_eq (y : YModule) (m : Module) :
    withProvidesUnique y m = { m with conflicts := addOpt m.conflicts y.providesUnique,
                                      provides := addOpt m.provides y.providesUnique } := by
  unfold withProvidesUnique; cases y.providesUnique <;> rfl

theorem withNotifyAll_eq (y : YModule) (m : Module) :
    withNotifyAll y m = { m with notifyAll := y.notifyAll || m.notifyAll } := by
  unfold withNotifyAll; cases y.notifyAll <;> rfl

/-- the plain (unguarded) sources of the YAML module -/
def ownSources (y : YModule) : List String := (y.sources.getD []).filterMap plainSource

def sourcesOptionalOf (y : YModule) (m : Module) : Option (List (String × List String)) :=
  match y.sources with
  | none => m.sourcesOptional
  | some l => (withOptionalSources (optionalSources l) m).sourcesOptional

theorem withSources_eq (y : YModule) (m : Module) :
    withSources y m = { m with sources := m.sources ++ ownSources y,
                               sourcesOptional := sourcesOptionalOf y m } := by
  unfold withSources ownSources sourcesOptionalOf
  cases y.sources with
  | none => simp
  | some l =>
    simp only [Option.getD_some]
    unfold withOptionalSources
    split <;> rfl

def buildDepFilesOf (y : YModule) (bd rp : String) (m : Module) : Option (List String) :=
  match y.download with
  | some d => some (setInsert (m.buildDepFiles.getD []) (d.tagfile (y.srcdir.getD (d.srcdir bd rp m.name))))
  | none => m.buildDepFiles

theorem withDownload_eq (y : YModule) (bd rp : String) (m : Module) :
    withDownload y bd rp m = { m with download := y.download, isBuildDep := y.download.isSome || m.isBuildDep,
                                      buildDepFiles := buildDepFilesOf y bd rp m } := by
  unfold withDownload buildDepFilesOf; cases y.download <;> rfl

/-- the module the conversion starts from -/
abbrev base (y : YModule) (c : Option String) (f : String) (d : Option Module) : Module :=
  moduleBase (moduleNameOf y f) c d

section Steps
/-! every step of `convertStatic`, field by field (generated; one line each) -/
theorem initModule_name (y : YModule) (c : Option String) (isB : Bool) (f : String) (d : Option Module) : (initModule y c isB f d).name = (base y c f d).name := rfl
theorem initModule_contextName (y : YModule) (c : Option String) (isB : Bool) (f : String) (d : Option Module) : (initModule y c isB f d).contextName = (base y c f d).contextName := rfl
theorem initModule_selects (y : YModule) (c : Option String) (isB : Bool) (f : String) (d : Option Module) : (initModule y c isB f d).selects = (base y c f d).selects := rfl
theorem initModule_imports (y : YModule) (c : Option String) (isB : Bool) (f : String) (d : Option Module) : (initModule y c isB f d).imports = (base y c f d).imports := rfl
theorem initModule_provides (y : YModule) (c : Option String) (isB : Bool) (f : String) (d : Option Module) : (initModule y c isB f d).provides = (base y c f d).provides := rfl
theorem initModule_conflicts (y : YModule) (c : Option String) (isB : Bool) (f : String) (d : Option Module) : (initModule y c isB f d).conflicts = (base y c f d).conflicts := rfl
theorem initModule_notifyAll (y : YModule) (c : Option String) (isB : Bool) (f : String) (d : Option Module) : (initModule y c isB f d).notifyAll = (base y c f d).notifyAll := rfl
theorem initModule_blocklist (y : YModule) (c : Option String) (isB : Bool) (f : String) (d : Option Module) : (initModule y c isB f d).blocklist = (base y c f d).blocklist := rfl
theorem initModule_allowlist (y : YModule) (c : Option String) (isB : Bool) (f : String) (d : Option Module) : (initModule y c isB f d).allowlist = (base y c f d).allowlist := rfl
theorem initModule_sources (y : YModule) (c : Option String) (isB : Bool) (f : String) (d : Option Module) : (initModule y c isB f d).sources = (base y c f d).sources := rfl
theorem initModule_sourcesOptional (y : YModule) (c : Option String) (isB : Bool) (f : String) (d : Option Module) : (initModule y c isB f d).sourcesOptional = (base y c f d).sourcesOptional := rfl
theorem initModule_tasks (y : YModule) (c : Option String) (isB : Bool) (f : String) (d : Option Module) : (initModule y c isB f d).tasks = (base y c f d).tasks := rfl
theorem initModule_build (y : YModule) (c : Option String) (isB : Bool) (f : String) (d : Option Module) : (initModule y c isB f d).build = (base y c f d).build := rfl
theorem initModule_envLocal (y : YModule) (c : Option String) (isB : Bool) (f : String) (d : Option Module) : (initModule y c isB f d).envLocal = (base y c f d).envLocal := rfl
theorem initModule_envExport (y : YModule) (c : Option String) (isB : Bool) (f : String) (d : Option Module) : (initModule y c isB f d).envExport = (base y c f d).envExport := rfl
theorem initModule_envGlobal (y : YModule) (c : Option String) (isB : Bool) (f : String) (d : Option Module) : (initModule y c isB f d).envGlobal = (base y c f d).envGlobal := rfl
theorem initModule_envEarly (y : YModule) (c : Option String) (isB : Bool) (f : String) (d : Option Module) : (initModule y c isB f d).envEarly = (base y c f d).envEarly := rfl
theorem initModule_download (y : YModule) (c : Option String) (isB : Bool) (f : String) (d : Option Module) : (initModule y c isB f d).download = (base y c f d).download := rfl
theorem initModule_definedIn (y : YModule) (c : Option String) (isB : Bool) (f : String) (d : Option Module) : (initModule y c isB f d).definedIn = f := rfl
theorem initModule_relpath (y : YModule) (c : Option String) (isB : Bool) (f : String) (d : Option Module) : (initModule y c isB f d).relpath = relpathOf f := rfl
theorem initModule_srcdir (y : YModule) (c : Option String) (isB : Bool) (f : String) (d : Option Module) : (initModule y c isB f d).srcdir = (base y c f d).srcdir := rfl
theorem initModule_buildDepFiles (y : YModule) (c : Option String) (isB : Bool) (f : String) (d : Option Module) : (initModule y c isB f d).buildDepFiles = (base y c f d).buildDepFiles := rfl
theorem initModule_isBuildDep (y : YModule) (c : Option String) (isB : Bool) (f : String) (d : Option Module) : (initModule y c isB f d).isBuildDep = (base y c f d).isBuildDep := rfl
theorem initModule_isGlobalBuildDep (y : YModule) (c : Option String) (isB : Bool) (f : String) (d : Option Module) : (initModule y c isB f d).isGlobalBuildDep = (base y c f d).isGlobalBuildDep := rfl
theorem initModule_isBinary (y : YModule) (c : Option String) (isB : Bool) (f : String) (d : Option Module) : (initModule y c isB f d).isBinary = isB := rfl
theorem withDeps_name (selA uses deps : List Dep) (m : Module) : (withDeps selA uses deps m).name = m.name := rfl
theorem withDeps_contextName (selA uses deps : List Dep) (m : Module) : (withDeps selA uses deps m).contextName = m.contextName := rfl
theorem withDeps_selects (selA uses deps : List Dep) (m : Module) : (withDeps selA uses deps m).selects = m.selects ++ selA ++ deps := rfl
theorem withDeps_imports (selA uses deps : List Dep) (m : Module) : (withDeps selA uses deps m).imports = m.imports ++ uses ++ deps := rfl
theorem withDeps_provides (selA uses deps : List Dep) (m : Module) : (withDeps selA uses deps m).provides = m.provides := rfl
theorem withDeps_conflicts (selA uses deps : List Dep) (m : Module) : (withDeps selA uses deps m).conflicts = m.conflicts := rfl
theorem withDeps_notifyAll (selA uses deps : List Dep) (m : Module) : (withDeps selA uses deps m).notifyAll = m.notifyAll := rfl
theorem withDeps_blocklist (selA uses deps : List Dep) (m : Module) : (withDeps selA uses deps m).blocklist = m.blocklist := rfl
theorem withDeps_allowlist (selA uses deps : List Dep) (m : Module) : (withDeps selA uses deps m).allowlist = m.allowlist := rfl
theorem withDeps_sources (selA uses deps : List Dep) (m : Module) : (withDeps selA uses deps m).sources = m.sources := rfl
theorem withDeps_sourcesOptional (selA uses deps : List Dep) (m : Module) : (withDeps selA uses deps m).sourcesOptional = m.sourcesOptional := rfl
theorem withDeps_tasks (selA uses deps : List Dep) (m : Module) : (withDeps selA uses deps m).tasks = m.tasks := rfl
theorem withDeps_build (selA uses deps : List Dep) (m : Module) : (withDeps selA uses deps m).build = m.build := rfl
theorem withDeps_envLocal (selA uses deps : List Dep) (m : Module) : (withDeps selA uses deps m).envLocal = m.envLocal := rfl
theorem withDeps_envExport (selA uses deps : List Dep) (m : Module) : (withDeps selA uses deps m).envExport = m.envExport := rfl
theorem withDeps_envGlobal (selA uses deps : List Dep) (m : Module) : (withDeps selA uses deps m).envGlobal = m.envGlobal := rfl
theorem withDeps_envEarly (selA uses deps : List Dep) (m : Module) : (withDeps selA uses deps m).envEarly = m.envEarly := rfl
theorem withDeps_download (selA uses deps : List Dep) (m : Module) : (withDeps selA uses deps m).download = m.download := rfl
theorem withDeps_definedIn (selA uses deps : List Dep) (m : Module) : (withDeps selA uses deps m).definedIn = m.definedIn := rfl
theorem withDeps_relpath (selA uses deps : List Dep) (m : Module) : (withDeps selA uses deps m).relpath = m.relpath := rfl
theorem withDeps_srcdir (selA uses deps : List Dep) (m : Module) : (withDeps selA uses deps m).srcdir = m.srcdir := rfl
theorem withDeps_buildDepFiles (selA uses deps : List Dep) (m : Module) : (withDeps selA uses deps m).buildDepFiles = m.buildDepFiles := rfl
theorem withDeps_isBuildDep (selA uses deps : List Dep) (m : Module) : (withDeps selA uses deps m).isBuildDep = m.isBuildDep := rfl
theorem withDeps_isGlobalBuildDep (selA uses deps : List Dep) (m : Module) : (withDeps selA uses deps m).isGlobalBuildDep = m.isGlobalBuildDep := rfl
theorem withDeps_isBinary (selA uses deps : List Dep) (m : Module) : (withDeps selA uses deps m).isBinary = m.isBinary := rfl
theorem withConflicts_name (y : YModule) (m : Module) : (withConflicts y m).name = m.name := by rw [withConflicts_eq]
theorem withConflicts_contextName (y : YModule) (m : Module) : (withConflicts y m).contextName = m.contextName := by rw [withConflicts_eq]
theorem withConflicts_selects (y : YModule) (m : Module) : (withConflicts y m).selects = m.selects := by rw [withConflicts_eq]
theorem withConflicts_imports (y : YModule) (m : Module) : (withConflicts y m).imports = m.imports := by rw [withConflicts_eq]
theorem withConflicts_provides (y : YModule) (m : Module) : (withConflicts y m).provides = m.provides := by rw [withConflicts_eq]
theorem withConflicts_conflicts (y : YModule) (m : Module) : (withConflicts y m).conflicts = addOpt m.conflicts y.conflicts := by rw [withConflicts_eq]
theorem withConflicts_notifyAll (y : YModule) (m : Module) : (withConflicts y m).notifyAll = m.notifyAll := by rw [withConflicts_eq]
theorem withConflicts_blocklist (y : YModule) (m : Module) : (withConflicts y m).blocklist = m.blocklist := by rw [withConflicts_eq]
theorem withConflicts_allowlist (y : YModule) (m : Module) : (withConflicts y m).allowlist = m.allowlist := by rw [withConflicts_eq]
theorem withConflicts_sources (y : YModule) (m : Module) : (withConflicts y m).sources = m.sources := by rw [withConflicts_eq]
theorem withConflicts_sourcesOptional (y : YModule) (m : Module) : (withConflicts y m).sourcesOptional = m.sourcesOptional := by rw [withConflicts_eq]
theorem withConflicts_tasks (y : YModule) (m : Module) : (withConflicts y m).tasks = m.tasks := by rw [withConflicts_eq]
theorem withConflicts_build (y : YModule) (m : Module) : (withConflicts y m).build = m.build := by rw [withConflicts_eq]
theorem withConflicts_envLocal (y : YModule) (m : Module) : (withConflicts y m).envLocal = m.envLocal := by rw [withConflicts_eq]
theorem withConflicts_envExport (y : YModule) (m : Module) : (withConflicts y m).envExport = m.envExport := by rw [withConflicts_eq]
theorem withConflicts_envGlobal (y : YModule) (m : Module) : (withConflicts y m).envGlobal = m.envGlobal := by rw [withConflicts_eq]
theorem withConflicts_envEarly (y : YModule) (m : Module) : (withConflicts y m).envEarly = m.envEarly := by rw [withConflicts_eq]
theorem withConflicts_download (y : YModule) (m : Module) : (withConflicts y m).download = m.download := by rw [withConflicts_eq]
theorem withConflicts_definedIn (y : YModule) (m : Module) : (withConflicts y m).definedIn = m.definedIn := by rw [withConflicts_eq]
theorem withConflicts_relpath (y : YModule) (m : Module) : (withConflicts y m).relpath = m.relpath := by rw [withConflicts_eq]
theorem withConflicts_srcdir (y : YModule) (m : Module) : (withConflicts y m).srcdir = m.srcdir := by rw [withConflicts_eq]
theorem withConflicts_buildDepFiles (y : YModule) (m : Module) : (withConflicts y m).buildDepFiles = m.buildDepFiles := by rw [withConflicts_eq]
theorem withConflicts_isBuildDep (y : YModule) (m : Module) : (withConflicts y m).isBuildDep = m.isBuildDep := by rw [withConflicts_eq]
theorem withConflicts_isGlobalBuildDep (y : YModule) (m : Module) : (withConflicts y m).isGlobalBuildDep = m.isGlobalBuildDep := by rw [withConflicts_eq]
theorem withConflicts_isBinary (y : YModule) (m : Module) : (withConflicts y m).isBinary = m.isBinary := by rw [withConflicts_eq]
theorem withProvides_name (y : YModule) (m : Module) : (withProvides y m).name = m.name := by rw [withProvides_eq]
theorem withProvides_contextName (y : YModule) (m : Module) : (withProvides y m).contextName = m.contextName := by rw [withProvides_eq]
theorem withProvides_selects (y : YModule) (m : Module) : (withProvides y m).selects = m.selects := by rw [withProvides_eq]
theorem withProvides_imports (y : YModule) (m : Module) : (withProvides y m).imports = m.imports := by rw [withProvides_eq]
theorem withProvides_provides (y : YModule) (m : Module) : (withProvides y m).provides = addOpt m.provides y.provides := by rw [withProvides_eq]
theorem withProvides_conflicts (y : YModule) (m : Module) : (withProvides y m).conflicts = m.conflicts := by rw [withProvides_eq]
theorem withProvides_notifyAll (y : YModule) (m : Module) : (withProvides y m).notifyAll = m.notifyAll := by rw [withProvides_eq]
theorem withProvides_blocklist (y : YModule) (m : Module) : (withProvides y m).blocklist = m.blocklist := by rw [withProvides_eq]
theorem withProvides_allowlist (y : YModule) (m : Module) : (withProvides y m).allowlist = m.allowlist := by rw [withProvides_eq]
theorem withProvides_sources (y : YModule) (m : Module) : (withProvides y m).sources = m.sources := by rw [withProvides_eq]
theorem withProvides_sourcesOptional (y : YModule) (m : Module) : (withProvides y m).sourcesOptional = m.sourcesOptional := by rw [withProvides_eq]
theorem withProvides_tasks (y : YModule) (m : Module) : (withProvides y m).tasks = m.tasks := by rw [withProvides_eq]
theorem withProvides_build (y : YModule) (m : Module) : (withProvides y m).build = m.build := by rw [withProvides_eq]
theorem withProvides_envLocal (y : YModule) (m : Module) : (withProvides y m).envLocal = m.envLocal := by rw [withProvides_eq]
theorem withProvides_envExport (y : YModule) (m : Module) : (withProvides y m).envExport = m.envExport := by rw [withProvides_eq]
theorem withProvides_envGlobal (y : YModule) (m : Module) : (withProvides y m).envGlobal = m.envGlobal := by rw [withProvides_eq]
theorem withProvides_envEarly (y : YModule) (m : Module) : (withProvides y m).envEarly = m.envEarly := by rw [withProvides_eq]
theorem withProvides_download (y : YModule) (m : Module) : (withProvides y m).download = m.download := by rw [withProvides_eq]
theorem withProvides_definedIn (y : YModule) (m : Module) : (withProvides y m).definedIn = m.definedIn := by rw [withProvides_eq]
theorem withProvides_relpath (y : YModule) (m : Module) : (withProvides y m).relpath = m.relpath := by rw [withProvides_eq]
theorem withProvides_srcdir (y : YModule) (m : Module) : (withProvides y m).srcdir = m.srcdir := by rw [withProvides_eq]
theorem withProvides_buildDepFiles (y : YModule) (m : Module) : (withProvides y m).buildDepFiles = m.buildDepFiles := by rw [withProvides_eq]
theorem withProvides_isBuildDep (y : YModule) (m : Module) : (withProvides y m).isBuildDep = m.isBuildDep := by rw [withProvides_eq]
theorem withProvides_isGlobalBuildDep (y : YModule) (m : Module) : (withProvides y m).isGlobalBuildDep = m.isGlobalBuildDep := by rw [withProvides_eq]
theorem withProvides_isBinary (y : YModule) (m : Module) : (withProvides y m).isBinary = m.isBinary := by rw [withProvides_eq]
theorem withProvidesUnique_name (y : YModule) (m : Module) : (withProvidesUnique y m).name = m.name := by rw [withProvidesUnique_eq]
theorem withProvidesUnique_contextName (y : YModule) (m : Module) : (withProvidesUnique y m).contextName = m.contextName := by rw [withProvidesUnique_eq]
theorem withProvidesUnique_selects (y : YModule) (m : Module) : (withProvidesUnique y m).selects = m.selects := by rw [withProvidesUnique_eq]
theorem withProvidesUnique_imports (y : YModule) (m : Module) : (withProvidesUnique y m).imports = m.imports := by rw [withProvidesUnique_eq]
theorem withProvidesUnique_provides (y : YModule) (m : Module) : (withProvidesUnique y m).provides = addOpt m.provides y.providesUnique := by rw [withProvidesUnique_eq]
theorem withProvidesUnique_conflicts (y : YModule) (m : Module) : (withProvidesUnique y m).conflicts = addOpt m.conflicts y.providesUnique := by rw [withProvidesUnique_eq]
theorem withProvidesUnique_notifyAll (y : YModule) (m : Module) : (withProvidesUnique y m).notifyAll = m.notifyAll := by rw [withProvidesUnique_eq]
theorem withProvidesUnique_blocklist (y : YModule) (m : Module) : (withProvidesUnique y m).blocklist = m.blocklist := by rw [withProvidesUnique_eq]
theorem withProvidesUnique_allowlist (y : YModule) (m : Module) : (withProvidesUnique y m).allowlist = m.allowlist := by rw [withProvidesUnique_eq]
theorem withProvidesUnique_sources (y : YModule) (m : Module) : (withProvidesUnique y m).sources = m.sources := by rw [withProvidesUnique_eq]
theorem withProvidesUnique_sourcesOptional (y : YModule) (m : Module) : (withProvidesUnique y m).sourcesOptional = m.sourcesOptional := by rw [withProvidesUnique_eq]
theorem withProvidesUnique_tasks (y : YModule) (m : Module) : (withProvidesUnique y m).tasks = m.tasks := by rw [withProvidesUnique_eq]
theorem withProvidesUnique_build (y : YModule) (m : Module) : (withProvidesUnique y m).build = m.build := by rw [withProvidesUnique_eq]
theorem withProvidesUnique_envLocal (y : YModule) (m : Module) : (withProvidesUnique y m).envLocal = m.envLocal := by rw [withProvidesUnique_eq]
theorem withProvidesUnique_envExport (y : YModule) (m : Module) : (withProvidesUnique y m).envExport = m.envExport := by rw [withProvidesUnique_eq]
theorem withProvidesUnique_envGlobal (y : YModule) (m : Module) : (withProvidesUnique y m).envGlobal = m.envGlobal := by rw [withProvidesUnique_eq]
theorem withProvidesUnique_envEarly (y : YModule) (m : Module) : (withProvidesUnique y m).envEarly = m.envEarly := by rw [withProvidesUnique_eq]
theorem withProvidesUnique_download (y : YModule) (m : Module) : (withProvidesUnique y m).download = m.download := by rw [withProvidesUnique_eq]
theorem withProvidesUnique_definedIn (y : YModule) (m : Module) : (withProvidesUnique y m).definedIn = m.definedIn := by rw [withProvidesUnique_eq]
theorem withProvidesUnique_relpath (y : YModule) (m : Module) : (withProvidesUnique y m).relpath = m.relpath := by rw [withProvidesUnique_eq]
theorem withProvidesUnique_srcdir (y : YModule) (m : Module) : (withProvidesUnique y m).srcdir = m.srcdir := by rw [withProvidesUnique_eq]
theorem withProvidesUnique_buildDepFiles (y : YModule) (m : Module) : (withProvidesUnique y m).buildDepFiles = m.buildDepFiles := by rw [withProvidesUnique_eq]
theorem withProvidesUnique_isBuildDep (y : YModule) (m : Module) : (withProvidesUnique y m).isBuildDep = m.isBuildDep := by rw [withProvidesUnique_eq]
theorem withProvidesUnique_isGlobalBuildDep (y : YModule) (m : Module) : (withProvidesUnique y m).isGlobalBuildDep = m.isGlobalBuildDep := by rw [withProvidesUnique_eq]
theorem withProvidesUnique_isBinary (y : YModule) (m : Module) : (withProvidesUnique y m).isBinary = m.isBinary := by rw [withProvidesUnique_eq]
theorem withNotifyAll_name (y : YModule) (m : Module) : (withNotifyAll y m).name = m.name := by rw [withNotifyAll_eq]
theorem withNotifyAll_contextName (y : YModule) (m : Module) : (withNotifyAll y m).contextName = m.contextName := by rw [withNotifyAll_eq]
theorem withNotifyAll_selects (y : YModule) (m : Module) : (withNotifyAll y m).selects = m.selects := by rw [withNotifyAll_eq]
theorem withNotifyAll_imports (y : YModule) (m : Module) : (withNotifyAll y m).imports = m.imports := by rw [withNotifyAll_eq]
theorem withNotifyAll_provides (y : YModule) (m : Module) : (withNotifyAll y m).provides = m.provides := by rw [withNotifyAll_eq]
theorem withNotifyAll_conflicts (y : YModule) (m : Module) : (withNotifyAll y m).conflicts = m.conflicts := by rw [withNotifyAll_eq]
theorem withNotifyAll_notifyAll (y : YModule) (m : Module) : (withNotifyAll y m).notifyAll = (y.notifyAll || m.notifyAll) := by rw [withNotifyAll_eq]
theorem withNotifyAll_blocklist (y : YModule) (m : Module) : (withNotifyAll y m).blocklist = m.blocklist := by rw [withNotifyAll_eq]
theorem withNotifyAll_allowlist (y : YModule) (m : Module) : (withNotifyAll y m).allowlist = m.allowlist := by rw [withNotifyAll_eq]
theorem withNotifyAll_sources (y : YModule) (m : Module) : (withNotifyAll y m).sources = m.sources := by rw [withNotifyAll_eq]
theorem withNotifyAll_sourcesOptional (y : YModule) (m : Module) : (withNotifyAll y m).sourcesOptional = m.sourcesOptional := by rw [withNotifyAll_eq]
theorem withNotifyAll_tasks (y : YModule) (m : Module) : (withNotifyAll y m).tasks = m.tasks := by rw [withNotifyAll_eq]
theorem withNotifyAll_build (y : YModule) (m : Module) : (withNotifyAll y m).build = m.build := by rw [withNotifyAll_eq]
theorem withNotifyAll_envLocal (y : YModule) (m : Module) : (withNotifyAll y m).envLocal = m.envLocal := by rw [withNotifyAll_eq]
theorem withNotifyAll_envExport (y : YModule) (m : Module) : (withNotifyAll y m).envExport = m.envExport := by rw [withNotifyAll_eq]
theorem withNotifyAll_envGlobal (y : YModule) (m : Module) : (withNotifyAll y m).envGlobal = m.envGlobal := by rw [withNotifyAll_eq]
theorem withNotifyAll_envEarly (y : YModule) (m : Module) : (withNotifyAll y m).envEarly = m.envEarly := by rw [withNotifyAll_eq]
theorem withNotifyAll_download (y : YModule) (m : Module) : (withNotifyAll y m).download = m.download := by rw [withNotifyAll_eq]
theorem withNotifyAll_definedIn (y : YModule) (m : Module) : (withNotifyAll y m).definedIn = m.definedIn := by rw [withNotifyAll_eq]
theorem withNotifyAll_relpath (y : YModule) (m : Module) : (withNotifyAll y m).relpath = m.relpath := by rw [withNotifyAll_eq]
theorem withNotifyAll_srcdir (y : YModule) (m : Module) : (withNotifyAll y m).srcdir = m.srcdir := by rw [withNotifyAll_eq]
theorem withNotifyAll_buildDepFiles (y : YModule) (m : Module) : (withNotifyAll y m).buildDepFiles = m.buildDepFiles := by rw [withNotifyAll_eq]
theorem withNotifyAll_isBuildDep (y : YModule) (m : Module) : (withNotifyAll y m).isBuildDep = m.isBuildDep := by rw [withNotifyAll_eq]
theorem withNotifyAll_isGlobalBuildDep (y : YModule) (m : Module) : (withNotifyAll y m).isGlobalBuildDep = m.isGlobalBuildDep := by rw [withNotifyAll_eq]
theorem withNotifyAll_isBinary (y : YModule) (m : Module) : (withNotifyAll y m).isBinary = m.isBinary := by rw [withNotifyAll_eq]
theorem withRemoves_name (m : Module) : (withRemoves m).name = m.name := rfl
theorem withRemoves_contextName (m : Module) : (withRemoves m).contextName = m.contextName := rfl
theorem withRemoves_selects (m : Module) : (withRemoves m).selects = processRemoves m.selects := rfl
theorem withRemoves_imports (m : Module) : (withRemoves m).imports = processRemoves m.imports := rfl
theorem withRemoves_provides (m : Module) : (withRemoves m).provides = m.provides := rfl
theorem withRemoves_conflicts (m : Module) : (withRemoves m).conflicts = m.conflicts := rfl
theorem withRemoves_notifyAll (m : Module) : (withRemoves m).notifyAll = m.notifyAll := rfl
theorem withRemoves_blocklist (m : Module) : (withRemoves m).blocklist = m.blocklist := rfl
theorem withRemoves_allowlist (m : Module) : (withRemoves m).allowlist = m.allowlist := rfl
theorem withRemoves_sources (m : Module) : (withRemoves m).sources = m.sources := rfl
theorem withRemoves_sourcesOptional (m : Module) : (withRemoves m).sourcesOptional = m.sourcesOptional := rfl
theorem withRemoves_tasks (m : Module) : (withRemoves m).tasks = m.tasks := rfl
theorem withRemoves_build (m : Module) : (withRemoves m).build = m.build := rfl
theorem withRemoves_envLocal (m : Module) : (withRemoves m).envLocal = m.envLocal := rfl
theorem withRemoves_envExport (m : Module) : (withRemoves m).envExport = m.envExport := rfl
theorem withRemoves_envGlobal (m : Module) : (withRemoves m).envGlobal = m.envGlobal := rfl
theorem withRemoves_envEarly (m : Module) : (withRemoves m).envEarly = m.envEarly := rfl
theorem withRemoves_download (m : Module) : (withRemoves m).download = m.download := rfl
theorem withRemoves_definedIn (m : Module) : (withRemoves m).definedIn = m.definedIn := rfl
theorem withRemoves_relpath (m : Module) : (withRemoves m).relpath = m.relpath := rfl
theorem withRemoves_srcdir (m : Module) : (withRemoves m).srcdir = m.srcdir := rfl
theorem withRemoves_buildDepFiles (m : Module) : (withRemoves m).buildDepFiles = m.buildDepFiles := rfl
theorem withRemoves_isBuildDep (m : Module) : (withRemoves m).isBuildDep = m.isBuildDep := rfl
theorem withRemoves_isGlobalBuildDep (m : Module) : (withRemoves m).isGlobalBuildDep = m.isGlobalBuildDep := rfl
theorem withRemoves_isBinary (m : Module) : (withRemoves m).isBinary = m.isBinary := rfl
theorem withEnvs_name (y : YModule) (m : Module) : (withEnvs y m).name = m.name := rfl
theorem withEnvs_contextName (y : YModule) (m : Module) : (withEnvs y m).contextName = m.contextName := rfl
theorem withEnvs_selects (y : YModule) (m : Module) : (withEnvs y m).selects = m.selects := rfl
theorem withEnvs_imports (y : YModule) (m : Module) : (withEnvs y m).imports = m.imports := rfl
theorem withEnvs_provides (y : YModule) (m : Module) : (withEnvs y m).provides = m.provides := rfl
theorem withEnvs_conflicts (y : YModule) (m : Module) : (withEnvs y m).conflicts = m.conflicts := rfl
theorem withEnvs_notifyAll (y : YModule) (m : Module) : (withEnvs y m).notifyAll = m.notifyAll := rfl
theorem withEnvs_blocklist (y : YModule) (m : Module) : (withEnvs y m).blocklist = m.blocklist := rfl
theorem withEnvs_allowlist (y : YModule) (m : Module) : (withEnvs y m).allowlist = m.allowlist := rfl
theorem withEnvs_sources (y : YModule) (m : Module) : (withEnvs y m).sources = m.sources := rfl
theorem withEnvs_sourcesOptional (y : YModule) (m : Module) : (withEnvs y m).sourcesOptional = m.sourcesOptional := rfl
theorem withEnvs_tasks (y : YModule) (m : Module) : (withEnvs y m).tasks = m.tasks := rfl
theorem withEnvs_build (y : YModule) (m : Module) : (withEnvs y m).build = m.build := rfl
theorem withEnvs_envLocal (y : YModule) (m : Module) : (withEnvs y m).envLocal = mergeOptEnv m.envLocal y.envLocal := rfl
theorem withEnvs_envExport (y : YModule) (m : Module) : (withEnvs y m).envExport = mergeOptEnv m.envExport y.envExport := rfl
theorem withEnvs_envGlobal (y : YModule) (m : Module) : (withEnvs y m).envGlobal = mergeOptEnv m.envGlobal y.envGlobal := rfl
theorem withEnvs_envEarly (y : YModule) (m : Module) : (withEnvs y m).envEarly = m.envEarly := rfl
theorem withEnvs_download (y : YModule) (m : Module) : (withEnvs y m).download = m.download := rfl
theorem withEnvs_definedIn (y : YModule) (m : Module) : (withEnvs y m).definedIn = m.definedIn := rfl
theorem withEnvs_relpath (y : YModule) (m : Module) : (withEnvs y m).relpath = m.relpath := rfl
theorem withEnvs_srcdir (y : YModule) (m : Module) : (withEnvs y m).srcdir = m.srcdir := rfl
theorem withEnvs_buildDepFiles (y : YModule) (m : Module) : (withEnvs y m).buildDepFiles = m.buildDepFiles := rfl
theorem withEnvs_isBuildDep (y : YModule) (m : Module) : (withEnvs y m).isBuildDep = m.isBuildDep := rfl
theorem withEnvs_isGlobalBuildDep (y : YModule) (m : Module) : (withEnvs y m).isGlobalBuildDep = m.isGlobalBuildDep := rfl
theorem withEnvs_isBinary (y : YModule) (m : Module) : (withEnvs y m).isBinary = m.isBinary := rfl
theorem withSources_name (y : YModule) (m : Module) : (withSources y m).name = m.name := by rw [withSources_eq]
theorem withSources_contextName (y : YModule) (m : Module) : (withSources y m).contextName = m.contextName := by rw [withSources_eq]
theorem withSources_selects (y : YModule) (m : Module) : (withSources y m).selects = m.selects := by rw [withSources_eq]
theorem withSources_imports (y : YModule) (m : Module) : (withSources y m).imports = m.imports := by rw [withSources_eq]
theorem withSources_provides (y : YModule) (m : Module) : (withSources y m).provides = m.provides := by rw [withSources_eq]
theorem withSources_conflicts (y : YModule) (m : Module) : (withSources y m).conflicts = m.conflicts := by rw [withSources_eq]
theorem withSources_notifyAll (y : YModule) (m : Module) : (withSources y m).notifyAll = m.notifyAll := by rw [withSources_eq]
theorem withSources_blocklist (y : YModule) (m : Module) : (withSources y m).blocklist = m.blocklist := by rw [withSources_eq]
theorem withSources_allowlist (y : YModule) (m : Module) : (withSources y m).allowlist = m.allowlist := by rw [withSources_eq]
theorem withSources_sources (y : YModule) (m : Module) : (withSources y m).sources = m.sources ++ ownSources y := by rw [withSources_eq]
theorem withSources_sourcesOptional (y : YModule) (m : Module) : (withSources y m).sourcesOptional = sourcesOptionalOf y m := by rw [withSources_eq]
theorem withSources_tasks (y : YModule) (m : Module) : (withSources y m).tasks = m.tasks := by rw [withSources_eq]
theorem withSources_build (y : YModule) (m : Module) : (withSources y m).build = m.build := by rw [withSources_eq]
theorem withSources_envLocal (y : YModule) (m : Module) : (withSources y m).envLocal = m.envLocal := by rw [withSources_eq]
theorem withSources_envExport (y : YModule) (m : Module) : (withSources y m).envExport = m.envExport := by rw [withSources_eq]
theorem withSources_envGlobal (y : YModule) (m : Module) : (withSources y m).envGlobal = m.envGlobal := by rw [withSources_eq]
theorem withSources_envEarly (y : YModule) (m : Module) : (withSources y m).envEarly = m.envEarly := by rw [withSources_eq]
theorem withSources_download (y : YModule) (m : Module) : (withSources y m).download = m.download := by rw [withSources_eq]
theorem withSources_definedIn (y : YModule) (m : Module) : (withSources y m).definedIn = m.definedIn := by rw [withSources_eq]
theorem withSources_relpath (y : YModule) (m : Module) : (withSources y m).relpath = m.relpath := by rw [withSources_eq]
theorem withSources_srcdir (y : YModule) (m : Module) : (withSources y m).srcdir = m.srcdir := by rw [withSources_eq]
theorem withSources_buildDepFiles (y : YModule) (m : Module) : (withSources y m).buildDepFiles = m.buildDepFiles := by rw [withSources_eq]
theorem withSources_isBuildDep (y : YModule) (m : Module) : (withSources y m).isBuildDep = m.isBuildDep := by rw [withSources_eq]
theorem withSources_isGlobalBuildDep (y : YModule) (m : Module) : (withSources y m).isGlobalBuildDep = m.isGlobalBuildDep := by rw [withSources_eq]
theorem withSources_isBinary (y : YModule) (m : Module) : (withSources y m).isBinary = m.isBinary := by rw [withSources_eq]
theorem withLists_name (y : YModule) (m : Module) : (withLists y m).name = m.name := rfl
theorem withLists_contextName (y : YModule) (m : Module) : (withLists y m).contextName = m.contextName := rfl
theorem withLists_selects (y : YModule) (m : Module) : (withLists y m).selects = m.selects := rfl
theorem withLists_imports (y : YModule) (m : Module) : (withLists y m).imports = m.imports := rfl
theorem withLists_provides (y : YModule) (m : Module) : (withLists y m).provides = m.provides := rfl
theorem withLists_conflicts (y : YModule) (m : Module) : (withLists y m).conflicts = m.conflicts := rfl
theorem withLists_notifyAll (y : YModule) (m : Module) : (withLists y m).notifyAll = m.notifyAll := rfl
theorem withLists_blocklist (y : YModule) (m : Module) : (withLists y m).blocklist = extendList m.blocklist y.blocklist := rfl
theorem withLists_allowlist (y : YModule) (m : Module) : (withLists y m).allowlist = extendList m.allowlist y.allowlist := rfl
theorem withLists_sources (y : YModule) (m : Module) : (withLists y m).sources = m.sources := rfl
theorem withLists_sourcesOptional (y : YModule) (m : Module) : (withLists y m).sourcesOptional = m.sourcesOptional := rfl
theorem withLists_tasks (y : YModule) (m : Module) : (withLists y m).tasks = m.tasks := rfl
theorem withLists_build (y : YModule) (m : Module) : (withLists y m).build = m.build := rfl
theorem withLists_envLocal (y : YModule) (m : Module) : (withLists y m).envLocal = m.envLocal := rfl
theorem withLists_envExport (y : YModule) (m : Module) : (withLists y m).envExport = m.envExport := rfl
theorem withLists_envGlobal (y : YModule) (m : Module) : (withLists y m).envGlobal = m.envGlobal := rfl
theorem withLists_envEarly (y : YModule) (m : Module) : (withLists y m).envEarly = m.envEarly := rfl
theorem withLists_download (y : YModule) (m : Module) : (withLists y m).download = m.download := rfl
theorem withLists_definedIn (y : YModule) (m : Module) : (withLists y m).definedIn = m.definedIn := rfl
theorem withLists_relpath (y : YModule) (m : Module) : (withLists y m).relpath = m.relpath := rfl
theorem withLists_srcdir (y : YModule) (m : Module) : (withLists y m).srcdir = m.srcdir := rfl
theorem withLists_buildDepFiles (y : YModule) (m : Module) : (withLists y m).buildDepFiles = m.buildDepFiles := rfl
theorem withLists_isBuildDep (y : YModule) (m : Module) : (withLists y m).isBuildDep = m.isBuildDep := rfl
theorem withLists_isGlobalBuildDep (y : YModule) (m : Module) : (withLists y m).isGlobalBuildDep = m.isGlobalBuildDep := rfl
theorem withLists_isBinary (y : YModule) (m : Module) : (withLists y m).isBinary = m.isBinary := rfl
theorem withDownload_name (y : YModule) (bd rp : String) (m : Module) : (withDownload y bd rp m).name = m.name := by rw [withDownload_eq]
theorem withDownload_contextName (y : YModule) (bd rp : String) (m : Module) : (withDownload y bd rp m).contextName = m.contextName := by rw [withDownload_eq]
theorem withDownload_selects (y : YModule) (bd rp : String) (m : Module) : (withDownload y bd rp m).selects = m.selects := by rw [withDownload_eq]
theorem withDownload_imports (y : YModule) (bd rp : String) (m : Module) : (withDownload y bd rp m).imports = m.imports := by rw [withDownload_eq]
theorem withDownload_provides (y : YModule) (bd rp : String) (m : Module) : (withDownload y bd rp m).provides = m.provides := by rw [withDownload_eq]
theorem withDownload_conflicts (y : YModule) (bd rp : String) (m : Module) : (withDownload y bd rp m).conflicts = m.conflicts := by rw [withDownload_eq]
theorem withDownload_notifyAll (y : YModule) (bd rp : String) (m : Module) : (withDownload y bd rp m).notifyAll = m.notifyAll := by rw [withDownload_eq]
theorem withDownload_blocklist (y : YModule) (bd rp : String) (m : Module) : (withDownload y bd rp m).blocklist = m.blocklist := by rw [withDownload_eq]
theorem withDownload_allowlist (y : YModule) (bd rp : String) (m : Module) : (withDownload y bd rp m).allowlist = m.allowlist := by rw [withDownload_eq]
theorem withDownload_sources (y : YModule) (bd rp : String) (m : Module) : (withDownload y bd rp m).sources = m.sources := by rw [withDownload_eq]
theorem withDownload_sourcesOptional (y : YModule) (bd rp : String) (m : Module) : (withDownload y bd rp m).sourcesOptional = m.sourcesOptional := by rw [withDownload_eq]
theorem withDownload_tasks (y : YModule) (bd rp : String) (m : Module) : (withDownload y bd rp m).tasks = m.tasks := by rw [withDownload_eq]
theorem withDownload_build (y : YModule) (bd rp : String) (m : Module) : (withDownload y bd rp m).build = m.build := by rw [withDownload_eq]
theorem withDownload_envLocal (y : YModule) (bd rp : String) (m : Module) : (withDownload y bd rp m).envLocal = m.envLocal := by rw [withDownload_eq]
theorem withDownload_envExport (y : YModule) (bd rp : String) (m : Module) : (withDownload y bd rp m).envExport = m.envExport := by rw [withDownload_eq]
theorem withDownload_envGlobal (y : YModule) (bd rp : String) (m : Module) : (withDownload y bd rp m).envGlobal = m.envGlobal := by rw [withDownload_eq]
theorem withDownload_envEarly (y : YModule) (bd rp : String) (m : Module) : (withDownload y bd rp m).envEarly = m.envEarly := by rw [withDownload_eq]
theorem withDownload_download (y : YModule) (bd rp : String) (m : Module) : (withDownload y bd rp m).download = y.download := by rw [withDownload_eq]
theorem withDownload_definedIn (y : YModule) (bd rp : String) (m : Module) : (withDownload y bd rp m).definedIn = m.definedIn := by rw [withDownload_eq]
theorem withDownload_relpath (y : YModule) (bd rp : String) (m : Module) : (withDownload y bd rp m).relpath = m.relpath := by rw [withDownload_eq]
theorem withDownload_srcdir (y : YModule) (bd rp : String) (m : Module) : (withDownload y bd rp m).srcdir = m.srcdir := by rw [withDownload_eq]
theorem withDownload_buildDepFiles (y : YModule) (bd rp : String) (m : Module) : (withDownload y bd rp m).buildDepFiles = buildDepFilesOf y bd rp m := by rw [withDownload_eq]
theorem withDownload_isBuildDep (y : YModule) (bd rp : String) (m : Module) : (withDownload y bd rp m).isBuildDep = (y.download.isSome || m.isBuildDep) := by rw [withDownload_eq]
theorem withDownload_isGlobalBuildDep (y : YModule) (bd rp : String) (m : Module) : (withDownload y bd rp m).isGlobalBuildDep = m.isGlobalBuildDep := by rw [withDownload_eq]
theorem withDownload_isBinary (y : YModule) (bd rp : String) (m : Module) : (withDownload y bd rp m).isBinary = m.isBinary := by rw [withDownload_eq]
theorem withBuildFlags_name (y : YModule) (m : Module) : (withBuildFlags y m).name = m.name := rfl
theorem withBuildFlags_contextName (y : YModule) (m : Module) : (withBuildFlags y m).contextName = m.contextName := rfl
theorem withBuildFlags_selects (y : YModule) (m : Module) : (withBuildFlags y m).selects = m.selects := rfl
theorem withBuildFlags_imports (y : YModule) (m : Module) : (withBuildFlags y m).imports = m.imports := rfl
theorem withBuildFlags_provides (y : YModule) (m : Module) : (withBuildFlags y m).provides = m.provides := rfl
theorem withBuildFlags_conflicts (y : YModule) (m : Module) : (withBuildFlags y m).conflicts = m.conflicts := rfl
theorem withBuildFlags_notifyAll (y : YModule) (m : Module) : (withBuildFlags y m).notifyAll = m.notifyAll := rfl
theorem withBuildFlags_blocklist (y : YModule) (m : Module) : (withBuildFlags y m).blocklist = m.blocklist := rfl
theorem withBuildFlags_allowlist (y : YModule) (m : Module) : (withBuildFlags y m).allowlist = m.allowlist := rfl
theorem withBuildFlags_sources (y : YModule) (m : Module) : (withBuildFlags y m).sources = m.sources := rfl
theorem withBuildFlags_sourcesOptional (y : YModule) (m : Module) : (withBuildFlags y m).sourcesOptional = m.sourcesOptional := rfl
theorem withBuildFlags_tasks (y : YModule) (m : Module) : (withBuildFlags y m).tasks = m.tasks := rfl
theorem withBuildFlags_build (y : YModule) (m : Module) : (withBuildFlags y m).build = y.build := rfl
theorem withBuildFlags_envLocal (y : YModule) (m : Module) : (withBuildFlags y m).envLocal = m.envLocal := rfl
theorem withBuildFlags_envExport (y : YModule) (m : Module) : (withBuildFlags y m).envExport = m.envExport := rfl
theorem withBuildFlags_envGlobal (y : YModule) (m : Module) : (withBuildFlags y m).envGlobal = m.envGlobal := rfl
theorem withBuildFlags_envEarly (y : YModule) (m : Module) : (withBuildFlags y m).envEarly = m.envEarly := rfl
theorem withBuildFlags_download (y : YModule) (m : Module) : (withBuildFlags y m).download = m.download := rfl
theorem withBuildFlags_definedIn (y : YModule) (m : Module) : (withBuildFlags y m).definedIn = m.definedIn := rfl
theorem withBuildFlags_relpath (y : YModule) (m : Module) : (withBuildFlags y m).relpath = m.relpath := rfl
theorem withBuildFlags_srcdir (y : YModule) (m : Module) : (withBuildFlags y m).srcdir = m.srcdir := rfl
theorem withBuildFlags_buildDepFiles (y : YModule) (m : Module) : (withBuildFlags y m).buildDepFiles = m.buildDepFiles := rfl
theorem withBuildFlags_isBuildDep (y : YModule) (m : Module) : (withBuildFlags y m).isBuildDep = (if y.download.isNone then y.isBuildDep else m.isBuildDep) := rfl
theorem withBuildFlags_isGlobalBuildDep (y : YModule) (m : Module) : (withBuildFlags y m).isGlobalBuildDep = y.isGlobalBuildDep := rfl
theorem withBuildFlags_isBinary (y : YModule) (m : Module) : (withBuildFlags y m).isBinary = m.isBinary := rfl
theorem withSrcdir_name (y : YModule) (bd rp : String) (m : Module) : (withSrcdir y bd rp m).name = m.name := rfl
theorem withSrcdir_contextName (y : YModule) (bd rp : String) (m : Module) : (withSrcdir y bd rp m).contextName = m.contextName := rfl
theorem withSrcdir_selects (y : YModule) (bd rp : String) (m : Module) : (withSrcdir y bd rp m).selects = m.selects := rfl
theorem withSrcdir_imports (y : YModule) (bd rp : String) (m : Module) : (withSrcdir y bd rp m).imports = m.imports := rfl
theorem withSrcdir_provides (y : YModule) (bd rp : String) (m : Module) : (withSrcdir y bd rp m).provides = m.provides := rfl
theorem withSrcdir_conflicts (y : YModule) (bd rp : String) (m : Module) : (withSrcdir y bd rp m).conflicts = m.conflicts := rfl
theorem withSrcdir_notifyAll (y : YModule) (bd rp : String) (m : Module) : (withSrcdir y bd rp m).notifyAll = m.notifyAll := rfl
theorem withSrcdir_blocklist (y : YModule) (bd rp : String) (m : Module) : (withSrcdir y bd rp m).blocklist = m.blocklist := rfl
theorem withSrcdir_allowlist (y : YModule) (bd rp : String) (m : Module) : (withSrcdir y bd rp m).allowlist = m.allowlist := rfl
theorem withSrcdir_sources (y : YModule) (bd rp : String) (m : Module) : (withSrcdir y bd rp m).sources = m.sources := rfl
theorem withSrcdir_sourcesOptional (y : YModule) (bd rp : String) (m : Module) : (withSrcdir y bd rp m).sourcesOptional = m.sourcesOptional := rfl
theorem withSrcdir_tasks (y : YModule) (bd rp : String) (m : Module) : (withSrcdir y bd rp m).tasks = m.tasks := rfl
theorem withSrcdir_build (y : YModule) (bd rp : String) (m : Module) : (withSrcdir y bd rp m).build = m.build := rfl
theorem withSrcdir_envLocal (y : YModule) (bd rp : String) (m : Module) : (withSrcdir y bd rp m).envLocal = m.envLocal := rfl
theorem withSrcdir_envExport (y : YModule) (bd rp : String) (m : Module) : (withSrcdir y bd rp m).envExport = m.envExport := rfl
theorem withSrcdir_envGlobal (y : YModule) (bd rp : String) (m : Module) : (withSrcdir y bd rp m).envGlobal = m.envGlobal := rfl
theorem withSrcdir_envEarly (y : YModule) (bd rp : String) (m : Module) : (withSrcdir y bd rp m).envEarly = m.envEarly := rfl
theorem withSrcdir_download (y : YModule) (bd rp : String) (m : Module) : (withSrcdir y bd rp m).download = m.download := rfl
theorem withSrcdir_definedIn (y : YModule) (bd rp : String) (m : Module) : (withSrcdir y bd rp m).definedIn = m.definedIn := rfl
theorem withSrcdir_relpath (y : YModule) (bd rp : String) (m : Module) : (withSrcdir y bd rp m).relpath = m.relpath := rfl
theorem withSrcdir_srcdir (y : YModule) (bd rp : String) (m : Module) : (withSrcdir y bd rp m).srcdir = some (y.srcdir.getD (defaultSrcdir y bd rp m.name)) := rfl
theorem withSrcdir_buildDepFiles (y : YModule) (bd rp : String) (m : Module) : (withSrcdir y bd rp m).buildDepFiles = m.buildDepFiles := rfl
theorem withSrcdir_isBuildDep (y : YModule) (bd rp : String) (m : Module) : (withSrcdir y bd rp m).isBuildDep = m.isBuildDep := rfl
theorem withSrcdir_isGlobalBuildDep (y : YModule) (bd rp : String) (m : Module) : (withSrcdir y bd rp m).isGlobalBuildDep = m.isGlobalBuildDep := rfl
theorem withSrcdir_isBinary (y : YModule) (bd rp : String) (m : Module) : (withSrcdir y bd rp m).isBinary = m.isBinary := rfl
theorem withEarlyEnv_name (rp : String) (m : Module) : (withEarlyEnv rp m).name = m.name := rfl
theorem withEarlyEnv_contextName (rp : String) (m : Module) : (withEarlyEnv rp m).contextName = m.contextName := rfl
theorem withEarlyEnv_selects (rp : String) (m : Module) : (withEarlyEnv rp m).selects = m.selects := rfl
theorem withEarlyEnv_imports (rp : String) (m : Module) : (withEarlyEnv rp m).imports = m.imports := rfl
theorem withEarlyEnv_provides (rp : String) (m : Module) : (withEarlyEnv rp m).provides = m.provides := rfl
theorem withEarlyEnv_conflicts (rp : String) (m : Module) : (withEarlyEnv rp m).conflicts = m.conflicts := rfl
theorem withEarlyEnv_notifyAll (rp : String) (m : Module) : (withEarlyEnv rp m).notifyAll = m.notifyAll := rfl
theorem withEarlyEnv_blocklist (rp : String) (m : Module) : (withEarlyEnv rp m).blocklist = m.blocklist := rfl
theorem withEarlyEnv_allowlist (rp : String) (m : Module) : (withEarlyEnv rp m).allowlist = m.allowlist := rfl
theorem withEarlyEnv_sources (rp : String) (m : Module) : (withEarlyEnv rp m).sources = m.sources := rfl
theorem withEarlyEnv_sourcesOptional (rp : String) (m : Module) : (withEarlyEnv rp m).sourcesOptional = m.sourcesOptional := rfl
theorem withEarlyEnv_tasks (rp : String) (m : Module) : (withEarlyEnv rp m).tasks = m.tasks := rfl
theorem withEarlyEnv_build (rp : String) (m : Module) : (withEarlyEnv rp m).build = m.build := rfl
theorem withEarlyEnv_envLocal (rp : String) (m : Module) : (withEarlyEnv rp m).envLocal = m.envLocal := rfl
theorem withEarlyEnv_envExport (rp : String) (m : Module) : (withEarlyEnv rp m).envExport = m.envExport := rfl
theorem withEarlyEnv_envGlobal (rp : String) (m : Module) : (withEarlyEnv rp m).envGlobal = m.envGlobal := rfl
theorem withEarlyEnv_envEarly (rp : String) (m : Module) : (withEarlyEnv rp m).envEarly = ((m.envEarly.insert "relpath" (.single rp)).insert "root" (.single ".")).insert "srcdir" (.single (m.srcdir.getD "")) := rfl
theorem withEarlyEnv_download (rp : String) (m : Module) : (withEarlyEnv rp m).download = m.download := rfl
theorem withEarlyEnv_definedIn (rp : String) (m : Module) : (withEarlyEnv rp m).definedIn = m.definedIn := rfl
theorem withEarlyEnv_relpath (rp : String) (m : Module) : (withEarlyEnv rp m).relpath = m.relpath := rfl
theorem withEarlyEnv_srcdir (rp : String) (m : Module) : (withEarlyEnv rp m).srcdir = m.srcdir := rfl
theorem withEarlyEnv_buildDepFiles (rp : String) (m : Module) : (withEarlyEnv rp m).buildDepFiles = m.buildDepFiles := rfl
theorem withEarlyEnv_isBuildDep (rp : String) (m : Module) : (withEarlyEnv rp m).isBuildDep = m.isBuildDep := rfl
theorem withEarlyEnv_isGlobalBuildDep (rp : String) (m : Module) : (withEarlyEnv rp m).isGlobalBuildDep = m.isGlobalBuildDep := rfl
theorem withEarlyEnv_isBinary (rp : String) (m : Module) : (withEarlyEnv rp m).isBinary = m.isBinary := rfl
end Steps

section Static
set_option linter.unusedSimpArgs false
variable (y : YModule) (c : Option String) (isB : Bool) (f : String) (d : Option Module) (bd : String)
  (selA uses deps : List Dep)

theorem convertStatic_name :
    (convertStatic y c isB f d bd selA uses deps).name =
      (base y c f d).name := by
  simp only [convertStatic, initModule_name, withDeps_name, withConflicts_name, withProvides_name, withProvidesUnique_name, withNotifyAll_name, withRemoves_name, withEnvs_name, withSources_name, withLists_name, withDownload_name, withBuildFlags_name, withSrcdir_name, withEarlyEnv_name]
theorem convertStatic_contextName :
    (convertStatic y c isB f d bd selA uses deps).contextName =
      (base y c f d).contextName := by
  simp only [convertStatic, initModule_contextName, withDeps_contextName, withConflicts_contextName, withProvides_contextName, withProvidesUnique_contextName, withNotifyAll_contextName, withRemoves_contextName, withEnvs_contextName, withSources_contextName, withLists_contextName, withDownload_contextName, withBuildFlags_contextName, withSrcdir_contextName, withEarlyEnv_contextName]
theorem convertStatic_selects :
    (convertStatic y c isB f d bd selA uses deps).selects =
      processRemoves ((base y c f d).selects ++ selA ++ deps) := by
  simp only [convertStatic, initModule_selects, withDeps_selects, withConflicts_selects, withProvides_selects, withProvidesUnique_selects, withNotifyAll_selects, withRemoves_selects, withEnvs_selects, withSources_selects, withLists_selects, withDownload_selects, withBuildFlags_selects, withSrcdir_selects, withEarlyEnv_selects]
theorem convertStatic_imports :
    (convertStatic y c isB f d bd selA uses deps).imports =
      processRemoves ((base y c f d).imports ++ uses ++ deps) := by
  simp only [convertStatic, initModule_imports, withDeps_imports, withConflicts_imports, withProvides_imports, withProvidesUnique_imports, withNotifyAll_imports, withRemoves_imports, withEnvs_imports, withSources_imports, withLists_imports, withDownload_imports, withBuildFlags_imports, withSrcdir_imports, withEarlyEnv_imports]
theorem convertStatic_sources :
    (convertStatic y c isB f d bd selA uses deps).sources =
      (base y c f d).sources ++ ownSources y := by
  simp only [convertStatic, initModule_sources, withDeps_sources, withConflicts_sources, withProvides_sources, withProvidesUnique_sources, withNotifyAll_sources, withRemoves_sources, withEnvs_sources, withSources_sources, withLists_sources, withDownload_sources, withBuildFlags_sources, withSrcdir_sources, withEarlyEnv_sources]
theorem convertStatic_conflicts :
    (convertStatic y c isB f d bd selA uses deps).conflicts =
      addOpt (addOpt (base y c f d).conflicts y.conflicts) y.providesUnique := by
  simp only [convertStatic, initModule_conflicts, withDeps_conflicts, withConflicts_conflicts, withProvides_conflicts, withProvidesUnique_conflicts, withNotifyAll_conflicts, withRemoves_conflicts, withEnvs_conflicts, withSources_conflicts, withLists_conflicts, withDownload_conflicts, withBuildFlags_conflicts, withSrcdir_conflicts, withEarlyEnv_conflicts]
theorem convertStatic_provides :
    (convertStatic y c isB f d bd selA uses deps).provides =
      addOpt (addOpt (base y c f d).provides y.provides) y.providesUnique := by
  simp only [convertStatic, initModule_provides, withDeps_provides, withConflicts_provides, withProvides_provides, withProvidesUnique_provides, withNotifyAll_provides, withRemoves_provides, withEnvs_provides, withSources_provides, withLists_provides, withDownload_provides, withBuildFlags_provides, withSrcdir_provides, withEarlyEnv_provides]
theorem convertStatic_blocklist :
    (convertStatic y c isB f d bd selA uses deps).blocklist =
      extendList (base y c f d).blocklist y.blocklist := by
  simp only [convertStatic, initModule_blocklist, withDeps_blocklist, withConflicts_blocklist, withProvides_blocklist, withProvidesUnique_blocklist, withNotifyAll_blocklist, withRemoves_blocklist, withEnvs_blocklist, withSources_blocklist, withLists_blocklist, withDownload_blocklist, withBuildFlags_blocklist, withSrcdir_blocklist, withEarlyEnv_blocklist]
theorem convertStatic_allowlist :
    (convertStatic y c isB f d bd selA uses deps).allowlist =
      extendList (base y c f d).allowlist y.allowlist := by
  simp only [convertStatic, initModule_allowlist, withDeps_allowlist, withConflicts_allowlist, withProvides_allowlist, withProvidesUnique_allowlist, withNotifyAll_allowlist, withRemoves_allowlist, withEnvs_allowlist, withSources_allowlist, withLists_allowlist, withDownload_allowlist, withBuildFlags_allowlist, withSrcdir_allowlist, withEarlyEnv_allowlist]
theorem convertStatic_envLocal :
    (convertStatic y c isB f d bd selA uses deps).envLocal =
      mergeOptEnv (base y c f d).envLocal y.envLocal := by
  simp only [convertStatic, initModule_envLocal, withDeps_envLocal, withConflicts_envLocal, withProvides_envLocal, withProvidesUnique_envLocal, withNotifyAll_envLocal, withRemoves_envLocal, withEnvs_envLocal, withSources_envLocal, withLists_envLocal, withDownload_envLocal, withBuildFlags_envLocal, withSrcdir_envLocal, withEarlyEnv_envLocal]
theorem convertStatic_envExport :
    (convertStatic y c isB f d bd selA uses deps).envExport =
      mergeOptEnv (base y c f d).envExport y.envExport := by
  simp only [convertStatic, initModule_envExport, withDeps_envExport, withConflicts_envExport, withProvides_envExport, withProvidesUnique_envExport, withNotifyAll_envExport, withRemoves_envExport, withEnvs_envExport, withSources_envExport, withLists_envExport, withDownload_envExport, withBuildFlags_envExport, withSrcdir_envExport, withEarlyEnv_envExport]
theorem convertStatic_envGlobal :
    (convertStatic y c isB f d bd selA uses deps).envGlobal =
      mergeOptEnv (base y c f d).envGlobal y.envGlobal := by
  simp only [convertStatic, initModule_envGlobal, withDeps_envGlobal, withConflicts_envGlobal, withProvides_envGlobal, withProvidesUnique_envGlobal, withNotifyAll_envGlobal, withRemoves_envGlobal, withEnvs_envGlobal, withSources_envGlobal, withLists_envGlobal, withDownload_envGlobal, withBuildFlags_envGlobal, withSrcdir_envGlobal, withEarlyEnv_envGlobal]
theorem convertStatic_notifyAll :
    (convertStatic y c isB f d bd selA uses deps).notifyAll =
      (y.notifyAll || (base y c f d).notifyAll) := by
  simp only [convertStatic, initModule_notifyAll, withDeps_notifyAll, withConflicts_notifyAll, withProvides_notifyAll, withProvidesUnique_notifyAll, withNotifyAll_notifyAll, withRemoves_notifyAll, withEnvs_notifyAll, withSources_notifyAll, withLists_notifyAll, withDownload_notifyAll, withBuildFlags_notifyAll, withSrcdir_notifyAll, withEarlyEnv_notifyAll]
theorem convertStatic_relpath :
    (convertStatic y c isB f d bd selA uses deps).relpath =
      relpathOf f := by
  simp only [convertStatic, initModule_relpath, withDeps_relpath, withConflicts_relpath, withProvides_relpath, withProvidesUnique_relpath, withNotifyAll_relpath, withRemoves_relpath, withEnvs_relpath, withSources_relpath, withLists_relpath, withDownload_relpath, withBuildFlags_relpath, withSrcdir_relpath, withEarlyEnv_relpath]
theorem convertStatic_definedIn :
    (convertStatic y c isB f d bd selA uses deps).definedIn =
      f := by
  simp only [convertStatic, initModule_definedIn, withDeps_definedIn, withConflicts_definedIn, withProvides_definedIn, withProvidesUnique_definedIn, withNotifyAll_definedIn, withRemoves_definedIn, withEnvs_definedIn, withSources_definedIn, withLists_definedIn, withDownload_definedIn, withBuildFlags_definedIn, withSrcdir_definedIn, withEarlyEnv_definedIn]
theorem convertStatic_isBinary :
    (convertStatic y c isB f d bd selA uses deps).isBinary =
      isB := by
  simp only [convertStatic, initModule_isBinary, withDeps_isBinary, withConflicts_isBinary, withProvides_isBinary, withProvidesUnique_isBinary, withNotifyAll_isBinary, withRemoves_isBinary, withEnvs_isBinary, withSources_isBinary, withLists_isBinary, withDownload_isBinary, withBuildFlags_isBinary, withSrcdir_isBinary, withEarlyEnv_isBinary]
theorem convertStatic_build :
    (convertStatic y c isB f d bd selA uses deps).build =
      y.build := by
  simp only [convertStatic, initModule_build, withDeps_build, withConflicts_build, withProvides_build, withProvidesUnique_build, withNotifyAll_build, withRemoves_build, withEnvs_build, withSources_build, withLists_build, withDownload_build, withBuildFlags_build, withSrcdir_build, withEarlyEnv_build]
theorem convertStatic_download :
    (convertStatic y c isB f d bd selA uses deps).download =
      y.download := by
  simp only [convertStatic, initModule_download, withDeps_download, withConflicts_download, withProvides_download, withProvidesUnique_download, withNotifyAll_download, withRemoves_download, withEnvs_download, withSources_download, withLists_download, withDownload_download, withBuildFlags_download, withSrcdir_download, withEarlyEnv_download]
theorem convertStatic_isGlobalBuildDep :
    (convertStatic y c isB f d bd selA uses deps).isGlobalBuildDep =
      y.isGlobalBuildDep := by
  simp only [convertStatic, initModule_isGlobalBuildDep, withDeps_isGlobalBuildDep, withConflicts_isGlobalBuildDep, withProvides_isGlobalBuildDep, withProvidesUnique_isGlobalBuildDep, withNotifyAll_isGlobalBuildDep, withRemoves_isGlobalBuildDep, withEnvs_isGlobalBuildDep, withSources_isGlobalBuildDep, withLists_isGlobalBuildDep, withDownload_isGlobalBuildDep, withBuildFlags_isGlobalBuildDep, withSrcdir_isGlobalBuildDep, withEarlyEnv_isGlobalBuildDep]
theorem convertStatic_isBuildDep :
    (convertStatic y c isB f d bd selA uses deps).isBuildDep =
      (if y.download.isNone then y.isBuildDep else (y.download.isSome || (base y c f d).isBuildDep)) := by
  simp only [convertStatic, initModule_isBuildDep, withDeps_isBuildDep, withConflicts_isBuildDep, withProvides_isBuildDep, withProvidesUnique_isBuildDep, withNotifyAll_isBuildDep, withRemoves_isBuildDep, withEnvs_isBuildDep, withSources_isBuildDep, withLists_isBuildDep, withDownload_isBuildDep, withBuildFlags_isBuildDep, withSrcdir_isBuildDep, withEarlyEnv_isBuildDep]
theorem convertStatic_tasks :
    (convertStatic y c isB f d bd selA uses deps).tasks =
      (base y c f d).tasks := by
  simp only [convertStatic, initModule_tasks, withDeps_tasks, withConflicts_tasks, withProvides_tasks, withProvidesUnique_tasks, withNotifyAll_tasks, withRemoves_tasks, withEnvs_tasks, withSources_tasks, withLists_tasks, withDownload_tasks, withBuildFlags_tasks, withSrcdir_tasks, withEarlyEnv_tasks]
theorem convertStatic_srcdir :
    (convertStatic y c isB f d bd selA uses deps).srcdir =
      some (y.srcdir.getD (defaultSrcdir y bd (relpathOf f) (base y c f d).name)) := by
  simp only [convertStatic, initModule_srcdir, initModule_name, withDeps_srcdir, withDeps_name, withConflicts_srcdir, withConflicts_name, withProvides_srcdir, withProvides_name, withProvidesUnique_srcdir, withProvidesUnique_name, withNotifyAll_srcdir, withNotifyAll_name, withRemoves_srcdir, withRemoves_name, withEnvs_srcdir, withEnvs_name, withSources_srcdir, withSources_name, withLists_srcdir, withLists_name, withDownload_srcdir, withDownload_name, withBuildFlags_srcdir, withBuildFlags_name, withSrcdir_srcdir, withSrcdir_name, withEarlyEnv_srcdir, withEarlyEnv_name]
theorem convertStatic_envEarly :
    (convertStatic y c isB f d bd selA uses deps).envEarly =
      (((base y c f d).envEarly.insert "relpath" (.single (relpathOf f))).insert "root" (.single ".")).insert
        "srcdir" (.single (y.srcdir.getD (defaultSrcdir y bd (relpathOf f) (base y c f d).name))) := by
  simp only [convertStatic, initModule_envEarly, initModule_srcdir, initModule_name, withDeps_envEarly, withDeps_srcdir, withDeps_name, withConflicts_envEarly, withConflicts_srcdir, withConflicts_name, withProvides_envEarly, withProvides_srcdir, withProvides_name, withProvidesUnique_envEarly, withProvidesUnique_srcdir, withProvidesUnique_name, withNotifyAll_envEarly, withNotifyAll_srcdir, withNotifyAll_name, withRemoves_envEarly, withRemoves_srcdir, withRemoves_name, withEnvs_envEarly, withEnvs_srcdir, withEnvs_name, withSources_envEarly, withSources_srcdir, withSources_name, withLists_envEarly, withLists_srcdir, withLists_name, withDownload_envEarly, withDownload_srcdir, withDownload_name, withBuildFlags_envEarly, withBuildFlags_srcdir, withBuildFlags_name, withSrcdir_envEarly, withSrcdir_srcdir, withSrcdir_name, withEarlyEnv_envEarly, withEarlyEnv_srcdir, withEarlyEnv_name, Option.getD_some]

end Static

/-- the fields of the starting module, with and without defaults -/
theorem base_some (y : YModule) (c : Option String) (f : String) (d : Module) :
    base y c f (some d) = { d with name := moduleNameOf y f, contextName := c.getD d.contextName } := rfl
theorem base_none (y : YModule) (c : Option String) (f : String) :
    base y c f none = { name := moduleNameOf y f, contextName := c.getD "default" } := rfl

/-! ### the fallible part of `convertModule` -/

theorem convertModule_ok {y : YModule} {c : Option String} {isB : Bool} {f : String} {d : Option Module}
    {bd : String} {m : Module} (h : convertModule y c isB f d bd = .ok m) :
    ∃ selA uses deps m1 m2,
      entriesToDeps (y.selects.getD []) = .ok selA ∧
      (y.uses.getD []).mapM depFromString = .ok uses ∧
      entriesToDeps (y.depends.getD []) = .ok deps ∧
      expandModuleEnvs (convertStatic y c isB f d bd selA uses deps) = .ok m1 ∧
      withTasks y m1 = .ok m2 ∧ m = withAppdir isB m2 := by
  unfold convertModule at h
  cases h1 : entriesToDeps (y.selects.getD []) with
  | error e => rw [h1] at h; cases h
  | ok selA =>
    cases h2 : (y.uses.getD []).mapM depFromString with
    | error e => rw [h1, h2] at h; cases h
    | ok uses =>
      cases h3 : entriesToDeps (y.depends.getD []) with
      | error e => rw [h1, h2, h3] at h; cases h
      | ok deps =>
        rw [h1, h2, h3] at h
        cases h4 : expandModuleEnvs (convertStatic y c isB f d bd selA uses deps) with
        | error e => simp only [bind, Except.bind, h4] at h; cases h
        | ok m1 =>
          cases h5 : withTasks y m1 with
          | error e => simp only [bind, Except.bind, h4, h5] at h; cases h
          | ok m2 =>
            simp only [bind, Except.bind, h4, h5, pure, Except.pure] at h
            exact ⟨selA, uses, deps, m1, m2, rfl, rfl, rfl, h4, h5, by cases h; rfl⟩

theorem expandModuleEnvs_ok {m m' : Module} (h : expandModuleEnvs m = .ok m') :
    ∃ loc exp glob, earlyX ((m.envLocal.merge m.envEarly).expandEarly m.envEarly) = .ok loc ∧
      earlyX (m.envExport.expandEarly m.envEarly) = .ok exp ∧
      earlyX (m.envGlobal.expandEarly m.envEarly) = .ok glob ∧
      m' = { m with envLocal := loc, envExport := exp, envGlobal := glob } := by
  unfold expandModuleEnvs at h
  cases h1 : earlyX ((m.envLocal.merge m.envEarly).expandEarly m.envEarly) with
  | error e => simp only [bind, Except.bind, h1] at h; cases h
  | ok loc =>
    cases h2 : earlyX (m.envExport.expandEarly m.envEarly) with
    | error e => simp only [bind, Except.bind, h1, h2] at h; cases h
    | ok exp =>
      cases h3 : earlyX (m.envGlobal.expandEarly m.envEarly) with
      | error e => simp only [bind, Except.bind, h1, h2, h3] at h; cases h
      | ok glob =>
        simp only [bind, Except.bind, h1, h2, h3, pure, Except.pure] at h
        exact ⟨loc, exp, glob, rfl, rfl, rfl, by cases h; rfl⟩

/-- the `::task::<name>` markers a module with `tasks:` provides uniquely -/
def taskMarkers (y : YModule) : Option (List String) := y.tasks.map (·.map taskMarker)

/-- the converted task table: the own tasks (early-expanded), else what the base had -/
def TasksOf (y : YModule) (s m : Module) : Prop :=
  match y.tasks with
  | none => m.tasks = s.tasks
  | some t => convertTasks t s.envEarly = .ok m.tasks

theorem withTasks_ok {y : YModule} {m m' : Module} (h : withTasks y m = .ok m') :
    m' = { m with tasks := m'.tasks, provides := addOpt m.provides (taskMarkers y),
                  conflicts := addOpt m.conflicts (taskMarkers y) } ∧ TasksOf y m m' := by
  unfold withTasks at h
  cases ht : y.tasks with
  | none =>
    rw [ht] at h; cases h
    refine ⟨?_, ?_⟩
    · simp only [taskMarkers, ht]; rfl
    · simp only [TasksOf, ht]
  | some t =>
    rw [ht] at h
    simp only at h
    cases hc : convertTasks t m.envEarly with
    | error e => rw [hc] at h; cases h
    | ok ts =>
      rw [hc] at h; cases h
      refine ⟨?_, ?_⟩
      · simp only [taskMarkers, ht]; rfl
      · simp only [TasksOf, ht, hc]

/-- What `convertModule` makes of the static part `s = convertStatic …`: everything is copied
    except the three envs (early-expanded), the task table and the task markers. -/
structure Fields (y : YModule) (isB : Bool) (s m : Module) : Prop where
  name : m.name = s.name
  contextName : m.contextName = s.contextName
  selects : m.selects = s.selects
  imports : m.imports = s.imports
  sources : m.sources = s.sources
  sourcesOptional : m.sourcesOptional = s.sourcesOptional
  blocklist : m.blocklist = s.blocklist
  allowlist : m.allowlist = s.allowlist
  notifyAll : m.notifyAll = s.notifyAll
  build : m.build = s.build
  download : m.download = s.download
  definedIn : m.definedIn = s.definedIn
  relpath : m.relpath = s.relpath
  srcdir : m.srcdir = s.srcdir
  envEarly : m.envEarly = s.envEarly
  buildDepFiles : m.buildDepFiles = s.buildDepFiles
  isBuildDep : m.isBuildDep = s.isBuildDep
  isGlobalBuildDep : m.isGlobalBuildDep = s.isGlobalBuildDep
  isBinary : m.isBinary = s.isBinary
  conflicts : m.conflicts = addOpt s.conflicts (taskMarkers y)
  provides : m.provides = addOpt s.provides (taskMarkers y)
  tasks : TasksOf y s m
  envLocal : earlyX ((s.envLocal.merge s.envEarly).expandEarly s.envEarly) = .ok m.envLocal
  envExport : earlyX (s.envExport.expandEarly s.envEarly) = .ok m.envExport
  envGlobal : ∃ g, earlyX (s.envGlobal.expandEarly s.envEarly) = .ok g ∧
    m.envGlobal = if isB then g.insert "appdir" (.single s.relpath) else g

theorem fields_of_steps {y : YModule} {isB : Bool} {s m1 m2 : Module}
    (h4 : expandModuleEnvs s = .ok m1) (h5 : withTasks y m1 = .ok m2) : Fields y isB s (withAppdir isB m2) := by
  obtain ⟨loc, exp, glob, hl, he, hg, hm1⟩ := expandModuleEnvs_ok h4
  obtain ⟨hm2, ht⟩ := withTasks_ok h5
  have ht' : TasksOf y s m2 := by
    unfold TasksOf at ht ⊢
    cases hy : y.tasks with
    | none => rw [hy] at ht; simp only at ht ⊢; rw [ht, hm1]
    | some t => rw [hy] at ht; simp only at ht ⊢; rw [← ht, hm1]
  have htA : TasksOf y s (withAppdir isB m2) := by
    unfold TasksOf at ht' ⊢
    cases isB <;> exact ht'
  have hg' : ∃ g, earlyX (s.envGlobal.expandEarly s.envEarly) = .ok g ∧
      (withAppdir isB m2).envGlobal = if isB then g.insert "appdir" (.single s.relpath) else g := by
    refine ⟨glob, hg, ?_⟩
    rw [hm2, hm1]; cases isB <;> rfl
  have hl' : earlyX ((s.envLocal.merge s.envEarly).expandEarly s.envEarly) = .ok (withAppdir isB m2).envLocal := by
    rw [hl, hm2, hm1]; cases isB <;> rfl
  have he' : earlyX (s.envExport.expandEarly s.envEarly) = .ok (withAppdir isB m2).envExport := by
    rw [he, hm2, hm1]; cases isB <;> rfl
  refine ⟨?_, ?_, ?_, ?_, ?_, ?_, ?_, ?_, ?_, ?_, ?_, ?_, ?_, ?_, ?_, ?_, ?_, ?_, ?_, ?_, ?_, htA, hl', he', hg'⟩ <;>
    (rw [hm2, hm1]; cases isB <;> rfl)

/-- **convertModule, specification**: a successful conversion is the static part
    `convertStatic …` on the converted dependency lists, finished as described by `Fields`. -/
theorem convertModule_spec {y : YModule} {c : Option String} {isB : Bool} {f : String} {d : Option Module}
    {bd : String} {m : Module} (h : convertModule y c isB f d bd = .ok m) :
    ∃ selA uses deps,
      entriesToDeps (y.selects.getD []) = .ok selA ∧
      (y.uses.getD []).mapM depFromString = .ok uses ∧
      entriesToDeps (y.depends.getD []) = .ok deps ∧
      Fields y isB (convertStatic y c isB f d bd selA uses deps) m := by
  obtain ⟨selA, uses, deps, m1, m2, h1, h2, h3, h4, h5, hm⟩ := convertModule_ok h
  refine ⟨selA, uses, deps, h1, h2, h3, ?_⟩
  rw [hm]
  exact fields_of_steps h4 h5

/-! ### the field-wise laws -/

theorem base_name (y : YModule) (c : Option String) (f : String) (d : Option Module) :
    (base y c f d).name = moduleNameOf y f := by cases d <;> rfl

/-- **Defaults as prefix, all fields.** `b` is what the module inherits (the defaults module, or
    the empty module), `selA`/`uses`/`deps` are the module's own converted `selects:`/`uses:`/
    `depends:` lists. Inherited lists come FIRST, the module's own entries follow; `-name`
    entries are processed on the concatenation. The envs are the inherited env with the own env
    merged on top, then early-expanded with the module's own early env. -/
structure Prefixed (y : YModule) (isB : Bool) (f bd : String) (b : Module) (selA uses deps : List Dep)
    (m : Module) : Prop where
  selects : m.selects = processRemoves (b.selects ++ selA ++ deps)
  imports : m.imports = processRemoves (b.imports ++ uses ++ deps)
  sources : m.sources = b.sources ++ ownSources y
  conflicts : m.conflicts = addOpt (addOpt (addOpt b.conflicts y.conflicts) y.providesUnique) (taskMarkers y)
  provides : m.provides = addOpt (addOpt (addOpt b.provides y.provides) y.providesUnique) (taskMarkers y)
  blocklist : m.blocklist = extendList b.blocklist y.blocklist
  allowlist : m.allowlist = extendList b.allowlist y.allowlist
  notifyAll : m.notifyAll = (y.notifyAll || b.notifyAll)
  envLocal : earlyX (((mergeOptEnv b.envLocal y.envLocal).merge m.envEarly).expandEarly m.envEarly) = .ok m.envLocal
  envExport : earlyX ((mergeOptEnv b.envExport y.envExport).expandEarly m.envEarly) = .ok m.envExport
  envGlobal : ∃ g, earlyX ((mergeOptEnv b.envGlobal y.envGlobal).expandEarly m.envEarly) = .ok g ∧
    m.envGlobal = if isB then g.insert "appdir" (.single (relpathOf f)) else g
  tasks : match y.tasks with
    | none => m.tasks = b.tasks
    | some t => convertTasks t m.envEarly = .ok m.tasks
  isBuildDep : m.isBuildDep = if y.download.isNone then y.isBuildDep else (y.download.isSome || b.isBuildDep)
  envEarly : m.envEarly = ((b.envEarly.insert "relpath" (.single (relpathOf f))).insert "root" (.single ".")).insert
    "srcdir" (.single (y.srcdir.getD (defaultSrcdir y bd (relpathOf f) (moduleNameOf y f))))
  name : m.name = moduleNameOf y f
  relpath : m.relpath = relpathOf f
  definedIn : m.definedIn = f
  isBinary : m.isBinary = isB
  build : m.build = y.build
  download : m.download = y.download
  isGlobalBuildDep : m.isGlobalBuildDep = y.isGlobalBuildDep
  srcdir : m.srcdir = some (y.srcdir.getD (defaultSrcdir y bd (relpathOf f) (moduleNameOf y f)))

theorem convertModule_prefixed {y : YModule} {c : Option String} {isB : Bool} {f : String} {d : Option Module}
    {bd : String} {m : Module} {selA uses deps : List Dep}
    (h : convertModule y c isB f d bd = .ok m)
    (hs : entriesToDeps (y.selects.getD []) = .ok selA)
    (hu : (y.uses.getD []).mapM depFromString = .ok uses)
    (hd : entriesToDeps (y.depends.getD []) = .ok deps) :
    Prefixed y isB f bd (base y c f d) selA uses deps m ∧ m.contextName = (base y c f d).contextName := by
  obtain ⟨selA', uses', deps', h1, h2, h3, F⟩ := convertModule_spec h
  rw [hs] at h1; rw [hu] at h2; rw [hd] at h3
  cases h1; cases h2; cases h3
  have hee := F.envEarly
  rw [convertStatic_envEarly, base_name] at hee
  refine ⟨?_, by rw [F.contextName, convertStatic_contextName]⟩
  constructor
  · rw [F.selects, convertStatic_selects]
  · rw [F.imports, convertStatic_imports]
  · rw [F.sources, convertStatic_sources]
  · rw [F.conflicts, convertStatic_conflicts]
  · rw [F.provides, convertStatic_provides]
  · rw [F.blocklist, convertStatic_blocklist]
  · rw [F.allowlist, convertStatic_allowlist]
  · rw [F.notifyAll, convertStatic_notifyAll]
  · have := F.envLocal
    rw [convertStatic_envLocal, ← F.envEarly] at this
    exact this
  · have := F.envExport
    rw [convertStatic_envExport, ← F.envEarly] at this
    exact this
  · obtain ⟨g, hg, hm⟩ := F.envGlobal
    rw [convertStatic_envGlobal, ← F.envEarly] at hg
    rw [convertStatic_relpath] at hm
    exact ⟨g, hg, hm⟩
  · have := F.tasks
    unfold TasksOf at this
    rw [convertStatic_tasks, ← F.envEarly] at this
    exact this
  · rw [F.isBuildDep, convertStatic_isBuildDep]
  · exact hee
  · rw [F.name, convertStatic_name, base_name]
  · rw [F.relpath, convertStatic_relpath]
  · rw [F.definedIn, convertStatic_definedIn]
  · rw [F.isBinary, convertStatic_isBinary]
  · rw [F.build, convertStatic_build]
  · rw [F.download, convertStatic_download]
  · rw [F.isGlobalBuildDep, convertStatic_isGlobalBuildDep]
  · rw [F.srcdir, convertStatic_srcdir, base_name]

/-- **C17, defaults as prefix** — a module/app written under defaults `d`: every list of `d` is
    a prefix of the module's, the envs of `d` are the base the module's envs are merged onto. -/
theorem defaults_prefix {y : YModule} {c : Option String} {isB : Bool} {f : String} {d : Module}
    {bd : String} {m : Module} {selA uses deps : List Dep}
    (h : convertModule y c isB f (some d) bd = .ok m)
    (hs : entriesToDeps (y.selects.getD []) = .ok selA)
    (hu : (y.uses.getD []).mapM depFromString = .ok uses)
    (hd : entriesToDeps (y.depends.getD []) = .ok deps) :
    Prefixed y isB f bd d selA uses deps m ∧ m.contextName = c.getD d.contextName := by
  obtain ⟨p, hc⟩ := convertModule_prefixed h hs hu hd
  exact ⟨{ selects := p.selects, imports := p.imports, sources := p.sources, conflicts := p.conflicts, provides := p.provides, blocklist := p.blocklist, allowlist := p.allowlist, notifyAll := p.notifyAll, envLocal := p.envLocal, envExport := p.envExport, envGlobal := p.envGlobal, tasks := p.tasks, isBuildDep := p.isBuildDep, envEarly := p.envEarly, name := p.name, relpath := p.relpath, definedIn := p.definedIn, isBinary := p.isBinary, build := p.build, download := p.download, isGlobalBuildDep := p.isGlobalBuildDep, srcdir := p.srcdir }, hc⟩

/-- the same module without defaults: the inherited part is empty -/
theorem no_defaults {y : YModule} {c : Option String} {isB : Bool} {f : String}
    {bd : String} {m : Module} {selA uses deps : List Dep}
    (h : convertModule y c isB f none bd = .ok m)
    (hs : entriesToDeps (y.selects.getD []) = .ok selA)
    (hu : (y.uses.getD []).mapM depFromString = .ok uses)
    (hd : entriesToDeps (y.depends.getD []) = .ok deps) :
    Prefixed y isB f bd { name := "", contextName := "" } selA uses deps m ∧ m.contextName = c.getD "default" := by
  obtain ⟨p, hc⟩ := convertModule_prefixed h hs hu hd
  exact ⟨{ selects := p.selects, imports := p.imports, sources := p.sources, conflicts := p.conflicts, provides := p.provides, blocklist := p.blocklist, allowlist := p.allowlist, notifyAll := p.notifyAll, envLocal := p.envLocal, envExport := p.envExport, envGlobal := p.envGlobal, tasks := p.tasks, isBuildDep := p.isBuildDep, envEarly := p.envEarly, name := p.name, relpath := p.relpath, definedIn := p.definedIn, isBinary := p.isBinary, build := p.build, download := p.download, isGlobalBuildDep := p.isGlobalBuildDep, srcdir := p.srcdir }, hc⟩

/-! ### `-name` entries across the defaults boundary -/

theorem removalsOf_append (a b : List Dep) : removalsOf (a ++ b) = removalsOf a ++ removalsOf b := by
  simp [removalsOf]

theorem removalsOf_eq_nil {D : List Dep} (hD : ∀ e ∈ D, e.name.startsWith "-" = false) : removalsOf D = [] := by
  unfold removalsOf
  rw [List.map_eq_nil_iff, List.filter_eq_nil_iff]
  intro d hd
  simp [hD d hd]

/-- The inherited list `D` is already processed (no `-name` entries: `process_removes_no_dash`), so
    the module's own `-name` entries remove the inherited `name`s, and everything else of `D`
    stays, in order, in front of the module's own processed list. -/
theorem process_removes_prefix (D raw : List Dep) (hD : ∀ e ∈ D, e.name.startsWith "-" = false) :
    processRemoves (D ++ raw) =
      D.filter (fun x => !(removalsOf raw).contains x.name) ++ processRemoves raw := by
  rw [processRemoves_eq (D ++ raw), removalsOf_append, removalsOf_eq_nil hD, List.nil_append,
    List.filter_append, processRemoves_eq raw]
  congr 1
  apply List.filter_congr
  intro x hx
  rw [hD x hx, Bool.false_or]

/-- a `-name` entry of the first list that names an entry of the second -/
def crossRemoval (D O : List Dep) : Prop :=
  ∃ e ∈ D, e.name.startsWith "-" = true ∧ ∃ o ∈ O, (e.name.drop 1).toString = o.name

/-- Processing the defaults' raw list `D` first and the concatenation afterwards (what the
    implementation does) equals processing the concatenation of the raw lists ("as if the defaults'
    entries were written before the module's own") — PROVIDED no `-name` of the defaults names an
    entry of the module. -/
theorem process_removes_absorb (D O : List Dep) (H : ¬ crossRemoval D O) :
    processRemoves (processRemoves D ++ O) = processRemoves (D ++ O) := by
  rw [processRemoves_eq (processRemoves D ++ O), processRemoves_eq (D ++ O), removalsOf_append,
    removalsOf_processRemoves, List.nil_append, removalsOf_append, List.filter_append, List.filter_append,
    processRemoves_eq D, List.filter_filter]
  congr 1
  · apply List.filter_congr
    intro x _
    rw [List.contains_append]
    cases x.name.startsWith "-" <;> cases (removalsOf D).contains x.name <;>
      cases (removalsOf O).contains x.name <;> rfl
  · apply List.filter_congr
    intro x hx
    have : (removalsOf D).contains x.name = false := by
      rw [List.contains_eq_mem]
      simp only [decide_eq_false_iff_not]
      intro hm
      obtain ⟨e, he, hs, heq⟩ := (mem_removalsOf D x.name).1 hm
      exact H ⟨e, he, hs, x, hx, heq⟩
    rw [List.contains_append, this, Bool.false_or]

/-- COUNTEREXAMPLE to the unrestricted reading of C17 ("as if the defaults' lists were written
    before its own, with `-name` removing `name`"): a `-x` in the defaults does NOT remove an `x`
    of the module, because the defaults' list is processed (and its `-x` dropped) when the
    defaults are converted. -/
theorem process_removes_not_absorb :
    processRemoves (processRemoves [.hard "-x", .hard "a"] ++ [.hard "x"]) = [.hard "a", .hard "x"] ∧
    processRemoves ([.hard "-x", .hard "a"] ++ [.hard "x"]) = [.hard "a"] := by decide +kernel

namespace Counterexample
/-- `defaults: module: selects: [-x, a]` -/
def yd : YModule := { selects := some [.str "-x", .str "a"] }
/-- `modules: - name: m, selects: [x]` -/
def yo : YModule := { name := some "m", selects := some [.str "x"] }
/-- the module with the defaults' list written in front of its own -/
def yi : YModule := { name := some "m", selects := some [.str "-x", .str "a", .str "x"] }

/-- under the defaults the module selects `a` and `x` … -/
theorem with_defaults (d m : Module) (hd : convertModule yd none false "laze.yml" none "build" = .ok d)
    (hm : convertModule yo none false "laze.yml" (some d) "build" = .ok m) :
    m.selects = [.hard "a", .hard "x"] := by
  have e1 : entriesToDeps (yd.selects.getD []) = .ok [.hard "-x", .hard "a"] := by decide +kernel
  have e2 : entriesToDeps (yo.selects.getD []) = .ok [.hard "x"] := by decide +kernel
  have hds := (no_defaults hd e1 (uses := []) (deps := []) rfl rfl).1.selects
  have hms := (defaults_prefix hm e2 (uses := []) (deps := []) rfl rfl).1.selects
  rw [hms, hds]
  decide +kernel

/-- … whereas with the defaults' entries inlined it selects only `a` -/
theorem inlined (m : Module) (hm : convertModule yi none false "laze.yml" none "build" = .ok m) :
    m.selects = [.hard "a"] := by
  have e : entriesToDeps (yi.selects.getD []) = .ok [.hard "-x", .hard "a", .hard "x"] := by decide +kernel
  rw [(no_defaults hm e (uses := []) (deps := []) rfl rfl).1.selects]
  decide +kernel

-- both conversions succeed (evaluated: `String.splitOn` does not reduce in the kernel)
#guard (match convertModule yd none false "laze.yml" none "build" with
  | .ok d => (match convertModule yo none false "laze.yml" (some d) "build" with
    | .ok m => m.selects == [.hard "a", .hard "x"]
    | .error _ => false)
  | .error _ => false)
#guard (match convertModule yi none false "laze.yml" none "build" with
  | .ok m => m.selects == [.hard "a"]
  | .error _ => false)
end Counterexample

/-! ### the module under defaults against the same module without -/

theorem extendList_none (o : Option (List String)) : extendList none o = o := rfl

/-- **C17, with against without defaults.** `m` is the module under defaults `d`, `m₀` the same
    YAML module converted without defaults. -/
theorem defaults_vs_plain {y : YModule} {c : Option String} {isB : Bool} {f : String} {d : Module}
    {bd : String} {m m₀ : Module}
    (h : convertModule y c isB f (some d) bd = .ok m)
    (h₀ : convertModule y c isB f none bd = .ok m₀) :
    (∃ raw, m₀.selects = processRemoves raw ∧ m.selects = processRemoves (d.selects ++ raw)) ∧
    (∃ raw, m₀.imports = processRemoves raw ∧ m.imports = processRemoves (d.imports ++ raw)) ∧
    m.sources = d.sources ++ m₀.sources ∧
    m.conflicts.getD [] = d.conflicts.getD [] ++ m₀.conflicts.getD [] ∧
    m.provides.getD [] = d.provides.getD [] ++ m₀.provides.getD [] ∧
    m.blocklist = extendList d.blocklist m₀.blocklist ∧
    m.allowlist = extendList d.allowlist m₀.allowlist ∧
    m.name = m₀.name ∧ m.relpath = m₀.relpath ∧ m.srcdir = m₀.srcdir ∧ m.definedIn = m₀.definedIn ∧
    m.build = m₀.build ∧ m.download = m₀.download := by
  obtain ⟨selA, uses, deps, h1, h2, h3, _⟩ := convertModule_spec h
  obtain ⟨p, _⟩ := defaults_prefix h h1 h2 h3
  obtain ⟨q, _⟩ := no_defaults h₀ h1 h2 h3
  refine ⟨⟨selA ++ deps, ?_, ?_⟩, ⟨uses ++ deps, ?_, ?_⟩, ?_, ?_, ?_, ?_, ?_, ?_, ?_, ?_, ?_, ?_, ?_⟩
  · rw [q.selects]; simp
  · rw [p.selects, List.append_assoc]
  · rw [q.imports]; simp
  · rw [p.imports, List.append_assoc]
  · rw [p.sources, q.sources]; simp
  · rw [p.conflicts, q.conflicts]; simp [addOpt_getD]
  · rw [p.provides, q.provides]; simp [addOpt_getD]
  · rw [p.blocklist, q.blocklist]; rfl
  · rw [p.allowlist, q.allowlist]; rfl
  · rw [p.name, q.name]
  · rw [p.relpath, q.relpath]
  · rw [p.srcdir, q.srcdir]
  · rw [p.definedIn, q.definedIn]
  · rw [p.build, q.build]
  · rw [p.download, q.download]

/-- when the defaults are themselves the result of a conversion, their `selects` are dash-free,
    hence: the module's selects are the defaults' (minus what the module removes with `-name`)
    followed by the selects the module has without defaults. -/
theorem defaults_selects_prefix {y yd : YModule} {c cd : Option String} {isB isBd : Bool} {f fd : String}
    {dd : Option Module} {d : Module} {bd : String} {m m₀ : Module}
    (hd : convertModule yd cd isBd fd dd bd = .ok d)
    (h : convertModule y c isB f (some d) bd = .ok m)
    (h₀ : convertModule y c isB f none bd = .ok m₀) :
    ∃ removed : List String, m.selects = d.selects.filter (fun x => !removed.contains x.name) ++ m₀.selects := by
  obtain ⟨sd, ud, dpd, e1, e2, e3, Fd⟩ := convertModule_spec hd
  have hdash : ∀ e ∈ d.selects, e.name.startsWith "-" = false := by
    rw [Fd.selects, convertStatic_selects]
    exact fun e he => process_removes_no_dash _ e he
  obtain ⟨selA, uses, deps, h1, h2, h3, _⟩ := convertModule_spec h
  obtain ⟨p, _⟩ := defaults_prefix h h1 h2 h3
  obtain ⟨q, _⟩ := no_defaults h₀ h1 h2 h3
  refine ⟨removalsOf (selA ++ deps), ?_⟩
  rw [p.selects, q.selects, List.append_assoc, process_removes_prefix _ _ hdash]
  simp

/-! ## 3. a module with a list of contexts = the module written once per context -/

/-- the same module written for the single context `c` -/
def withContext (y : YModule) (c : String) : YModule := { y with context := some [c] }

/-- the conversion never looks at the `context:` key (the context is passed separately) -/
theorem convertModule_withContext (y : YModule) (c : String) (c' : Option String) (isB : Bool) (f : String)
    (d : Option Module) (bd : String) :
    convertModule (withContext y c) c' isB f d bd = convertModule y c' isB f d bd := rfl

theorem addConverted_withContext (bd : String) (d : LDoc) (isB : Bool) (defs : Option Module) (y : YModule)
    (c : String) (c' : Option String) (cs : List Context) :
    addConverted bd d isB defs (withContext y c) c' cs = addConverted bd d isB defs y c' cs := rfl

/-- what `load` does with ONE entry of a `modules:`/`apps:` list -/
def addYModule (bd : String) (d : LDoc) (isB : Bool) (defs : Option Module) (y : YModule)
    (cs : List Context) : Except LErr (List Context) :=
  addModuleContexts bd d isB defs y y.contexts cs

theorem addYModules_cons (bd : String) (d : LDoc) (isB : Bool) (defs : Option Module) (y : YModule)
    (ys : List YModule) (cs : List Context) :
    addYModules bd d isB defs (y :: ys) cs =
      (addYModule bd d isB defs y cs).bind (addYModules bd d isB defs ys) := by
  rw [addYModules, addYModule]
  cases addModuleContexts bd d isB defs y y.contexts cs <;> rfl

theorem addYModules_append (bd : String) (d : LDoc) (isB : Bool) (defs : Option Module)
    (ys zs : List YModule) (cs : List Context) :
    addYModules bd d isB defs (ys ++ zs) cs =
      (addYModules bd d isB defs ys cs).bind (addYModules bd d isB defs zs) := by
  induction ys generalizing cs with
  | nil => rfl
  | cons y ys ih =>
    rw [List.cons_append, addYModules_cons, addYModules_cons]
    cases addYModule bd d isB defs y cs with
    | error e => rfl
    | ok cs' => exact ih cs'

/-- a module with a single context is converted exactly once, for that context -/
theorem addYModule_single (bd : String) (d : LDoc) (isB : Bool) (defs : Option Module) (y : YModule)
    (c : String) (cs : List Context) :
    addYModule bd d isB defs (withContext y c) cs = addConverted bd d isB defs y (some c) cs := by
  show addModuleContexts bd d isB defs (withContext y c) [some c] cs = _
  rw [addModuleContexts, addConverted_withContext]
  cases addConverted bd d isB defs y (some c) cs <;> rfl

theorem addModuleContexts_eq_copies (bd : String) (d : LDoc) (isB : Bool) (defs : Option Module) (y : YModule)
    (l : List String) (cs : List Context) :
    addModuleContexts bd d isB defs y (l.map some) cs = addYModules bd d isB defs (l.map (withContext y)) cs := by
  induction l generalizing cs with
  | nil => rfl
  | cons c rest ih =>
    rw [List.map_cons, List.map_cons, addYModules_cons, addYModule_single, addModuleContexts]
    cases addConverted bd d isB defs y (some c) cs with
    | error e => rfl
    | ok cs' => exact ih cs'

/-- **C17, context list**: adding a module whose `context:` is the list `[c₁,…,cₙ]` is adding the
    `n` copies of the module written for `c₁`, …, `cₙ` (in this order; errors included: the first
    failing copy fails the load with the same error). -/
theorem context_list (bd : String) (d : LDoc) (isB : Bool) (defs : Option Module) (y : YModule)
    (l : List String) (hy : y.context = some l) (cs : List Context) :
    addYModule bd d isB defs y cs = addYModules bd d isB defs (l.map (withContext y)) cs := by
  unfold addYModule YModule.contexts
  rw [hy]
  exact addModuleContexts_eq_copies bd d isB defs y l cs

/-- the same inside a `modules:`/`apps:` list -/
theorem context_list_in_section (bd : String) (d : LDoc) (isB : Bool) (defs : Option Module) (y : YModule)
    (l : List String) (hy : y.context = some l) (before after : List YModule) (cs : List Context) :
    addYModules bd d isB defs (before ++ y :: after) cs =
      addYModules bd d isB defs (before ++ l.map (withContext y) ++ after) cs := by
  rw [addYModules_append, List.append_assoc, addYModules_append]
  congr 1
  funext cs'
  rw [addYModules_cons, addYModules_append, context_list bd d isB defs y l hy]

/-- a module without `context:` is converted once, for the context of its defaults (else `default`) -/
theorem no_context (bd : String) (d : LDoc) (isB : Bool) (defs : Option Module) (y : YModule)
    (hy : y.context = none) (cs : List Context) :
    addYModule bd d isB defs y cs = addConverted bd d isB defs y none cs := by
  unfold addYModule YModule.contexts
  rw [hy, addModuleContexts]
  cases addConverted bd d isB defs y none cs <;> rfl

/-- corner case worth knowing: `context: []` silently drops the module -/
theorem empty_context_list_drops (bd : String) (d : LDoc) (isB : Bool) (defs : Option Module) (y : YModule)
    (hy : y.context = some []) (cs : List Context) : addYModule bd d isB defs y cs = .ok cs := by
  rw [context_list bd d isB defs y [] hy]; rfl

example : (withContext { name := some "m", context := some ["a", "b"] } "a").contexts = [some "a"] := rfl

/-! ## 4. duplicates, unknown contexts, unknown parents -/

/-- **add_module**: exact characterisation -/
theorem addModule_spec (cs : List Context) (m : Module) :
    addModule cs m =
      match cs.find? (·.name == m.contextName) with
      | none => .error (.error "undefined context")
      | some c =>
        if c.modules.any (·.name == m.name) then .error (.error "module name already used")
        else .ok (updateCtx cs m.contextName (fun c => { c with modules := c.modules ++ [m] })) := rfl

/-- the context does not exist → rejected -/
theorem addModule_unknown_context (cs : List Context) (m : Module)
    (h : ∀ c ∈ cs, c.name ≠ m.contextName) : addModule cs m = .error (.error "undefined context") := by
  have : cs.find? (·.name == m.contextName) = none := by
    rw [List.find?_eq_none]
    intro c hc
    simp [h c hc]
  rw [addModule_spec, this]

/-- the (first) context of that name already has a module of that name → rejected -/
theorem addModule_dup_rejected (cs : List Context) (m : Module) (c : Context)
    (hc : cs.find? (·.name == m.contextName) = some c) (m' : Module) (hm' : m' ∈ c.modules)
    (hn : m'.name = m.name) : addModule cs m = .error (.error "module name already used") := by
  have : c.modules.any (·.name == m.name) = true := by
    rw [List.any_eq_true]; exact ⟨m', hm', by simp [hn]⟩
  rw [addModule_spec, hc]
  simp only [this, if_true]

/-- otherwise the module is appended to the context(s) of that name, nothing else changes -/
theorem addModule_ok (cs : List Context) (m : Module) (c : Context)
    (hc : cs.find? (·.name == m.contextName) = some c) (hfresh : ∀ m' ∈ c.modules, m'.name ≠ m.name) :
    addModule cs m = .ok (cs.map (fun c' => if c'.name == m.contextName then { c' with modules := c'.modules ++ [m] } else c')) := by
  have : c.modules.any (·.name == m.name) = false := by
    rw [List.any_eq_false]; intro m' hm'; simp [hfresh m' hm']
  rw [addModule_spec, hc]
  simp only [this, Bool.false_eq_true, if_false]
  rfl

/-- `addModule` fails in exactly these two ways -/
theorem addModule_error_iff (cs : List Context) (m : Module) (e : LErr) :
    addModule cs m = .error e ↔
      (cs.find? (·.name == m.contextName) = none ∧ e = .error "undefined context") ∨
      (∃ c, cs.find? (·.name == m.contextName) = some c ∧ c.modules.any (·.name == m.name) = true ∧
        e = .error "module name already used") := by
  rw [addModule_spec]
  cases hf : cs.find? (·.name == m.contextName) with
  | none =>
    simp only [true_and, reduceCtorEq, false_and, exists_false, or_false]
    constructor
    · intro h; cases h; rfl
    · intro h; rw [h]
  | some c =>
    simp only [reduceCtorEq, false_and, false_or, Option.some.injEq, exists_eq_left']
    cases ha : c.modules.any (·.name == m.name)
    · simp
    · simp only [if_true, true_and]
      constructor
      · intro h; cases h; rfl
      · intro h; rw [h]

/-- the error of a failed step, for the examples (`Context` has no decidable equality) -/
def errOf {α} : Except LErr α → Option LErr
  | .error e => some e
  | .ok _ => none

example : errOf (addModule [defaultContext] { name := "context::default", contextName := "default" })
    = some (.error "module name already used") := by decide +kernel
example : errOf (addModule [defaultContext] { name := "m", contextName := "nowhere" })
    = some (.error "undefined context") := by decide +kernel
example : errOf (addModule [defaultContext] { name := "m", contextName := "default" }) = none := by
  decide +kernel

/-- **duplicate context name**: rejected whatever else the entry says -/
theorem addContext_dup_rejected (f : String) (isB : Bool) (acc : List Context × List Module) (y : YContext)
    (c : Context) (hc : c ∈ acc.1) (hn : c.name = y.name) :
    addContext f isB acc y = .error (.error "context name already defined") := by
  have : acc.1.any (·.name == y.name) = true := by
    rw [List.any_eq_true]; exact ⟨c, hc, by simp [hn]⟩
  unfold addContext
  simp only [this, if_true]

/-- a fresh name is accepted iff the context converts; the context and its `context::` module
    are appended -/
theorem addContext_fresh (f : String) (isB : Bool) (acc : List Context × List Module) (y : YContext)
    (hfresh : ∀ c ∈ acc.1, c.name ≠ y.name) :
    addContext f isB acc y =
      (convertContext y (isB || y.isBuilder) f).map (fun cm => (acc.1 ++ [cm.1], acc.2 ++ [cm.2])) := by
  have : acc.1.any (·.name == y.name) = false := by
    rw [List.any_eq_false]; intro c hc; simp [hfresh c hc]
  unfold addContext
  simp only [this, Bool.false_eq_true, if_false]
  cases convertContext y (isB || y.isBuilder) f <;> rfl

theorem convertContext_name {y : YContext} {isB : Bool} {f : String} {c : Context} {m : Module}
    (h : convertContext y isB f = .ok (c, m)) : c.name = y.name := by
  unfold convertContext at h
  cases h1 : convertOptTasks (contextEarlyEnv f) y.tasks with
  | error e => simp only [bind, Except.bind, h1] at h; cases h
  | ok t =>
    cases h2 : expandOptEnv (contextEarlyEnv f) y.env with
    | error e => simp only [bind, Except.bind, h1, h2] at h; cases h
    | ok e =>
      cases h3 : (y.selects.getD []).mapM depFromString with
      | error e => simp only [bind, Except.bind, h1, h2, h3] at h; cases h
      | ok sel =>
        simp only [bind, Except.bind, h1, h2, h3, pure, Except.pure] at h
        cases h; rfl

/-- once a duplicate name is met, the whole `contexts:` list is rejected -/
theorem addContexts_dup_rejected (f : String) (isB : Bool) (pre : List YContext) (y : YContext)
    (post : List YContext) (acc acc' : List Context × List Module)
    (hpre : addContexts f isB pre acc = .ok acc') (c : Context) (hc : c ∈ acc'.1) (hn : c.name = y.name) :
    addContexts f isB (pre ++ y :: post) acc = .error (.error "context name already defined") := by
  induction pre generalizing acc with
  | nil =>
    simp only [addContexts, Except.ok.injEq] at hpre
    subst hpre
    rw [List.nil_append, addContexts, addContext_dup_rejected f isB acc y c hc hn]
  | cons x xs ih =>
    rw [addContexts] at hpre
    rw [List.cons_append, addContexts]
    cases hx : addContext f isB acc x with
    | error e => rw [hx] at hpre; cases hpre
    | ok a => rw [hx] at hpre; exact ih a hpre

/-- **unknown parent**: `finalize` rejects a bag in which some context names a parent that is not
    in the bag (after `default` was added) -/
theorem finalize_unknown_parent (cs0 : List Context) (c : Context) (hc : c ∈ withDefaultContext cs0)
    (p : Name) (hp : c.parent = some p) (hunk : ∀ c' ∈ withDefaultContext cs0, c'.name ≠ p) :
    finalize cs0 = .error (.error "unknown parent") := by
  have hpk : parentKnown (withDefaultContext cs0) c = false := by
    unfold parentKnown
    rw [hp]
    simp only
    rw [List.any_eq_false]; intro c' hc'; simp [hunk c' hc']
  have : (withDefaultContext cs0).all (parentKnown (withDefaultContext cs0)) = false := by
    rw [List.all_eq_false]; exact ⟨c, hc, by simp [hpk]⟩
  unfold finalize finalizeBag
  simp only [this, Bool.not_false, if_true]

/-- conversely, when `finalize` succeeds every parent is a context of the bag -/
theorem finalize_ok_parents_known (cs0 : List Context) (r : List Context × List (Name × Nat))
    (h : finalize cs0 = .ok r) (c : Context) (hc : c ∈ withDefaultContext cs0) (p : Name)
    (hp : c.parent = some p) : ∃ c' ∈ withDefaultContext cs0, c'.name = p := by
  unfold finalize finalizeBag at h
  split at h
  · cases h
  · rename_i hall
    simp only [Bool.not_eq_true', Bool.not_eq_false] at hall
    have := (List.all_eq_true.1 hall) c hc
    unfold parentKnown at this
    rw [hp] at this
    simp only [List.any_eq_true, beq_iff_eq] at this
    exact this

example : errOf (finalize [{ name := "a", parent := some "nope" }]) = some (.error "unknown parent") := by
  decide +kernel

/-! ## 5. the lazefile work-list

The work-list is an insertion-ordered SET of `FileInclude = (filename, index of the including
document)`, keyed by the FILE NAME (its normalised components, `pathComponents`): a lazefile that
is listed under `subdirs:`/`includes:` by several documents — or by itself — is put on the
work-list, and read, ONCE (`WorkList.same_file_once`, `WorkList.self_include` below); the entry
keeps the index of the FIRST document that listed it. -/

/-- the identity of a work-list entry: the normalised components of its file name -/
def fkey (i : FileInclude) : List String := pathComponents i.filename

/-- no two entries of the work-list name the same file -/
def DistinctFiles (incs : List FileInclude) : Prop :=
  incs.Pairwise (fun a b => pathComponents a.filename ≠ pathComponents b.filename)

theorem distinctFiles_iff (incs : List FileInclude) : DistinctFiles incs ↔ (incs.map fkey).Nodup := by
  unfold DistinctFiles List.Nodup
  rw [List.pairwise_map]
  rfl

/-- entries for different files are different entries -/
theorem DistinctFiles.nodup {incs : List FileInclude} (h : DistinctFiles incs) : incs.Nodup := by
  unfold DistinctFiles at h
  unfold List.Nodup
  exact h.imp (fun hab e => hab (by rw [e]))

/-- `BEq` on includes is equality of the normalised file names (the includer is ignored) -/
theorem fi_beq (a b : FileInclude) :
    (a == b) = decide (pathComponents a.filename = pathComponents b.filename) := by
  show (pathComponents a.filename == pathComponents b.filename) = _
  by_cases h : pathComponents a.filename = pathComponents b.filename <;> simp [h]

theorem contains_iff (incs : List FileInclude) (fi : FileInclude) :
    incs.contains fi = true ↔ ∃ a ∈ incs, pathComponents a.filename = pathComponents fi.filename := by
  induction incs with
  | nil => simp
  | cons a t ih =>
    rw [List.contains_cons, Bool.or_eq_true, ih, fi_beq]
    simp only [decide_eq_true_eq, List.mem_cons, exists_eq_or_imp]
    constructor
    · rintro (h | h)
      · exact Or.inl h.symm
      · exact Or.inr h
    · rintro (h | h)
      · exact Or.inl h.symm
      · exact Or.inr h

/-- (a) an include whose FILE is already in the work-list is not added again … -/
theorem addInclude_of_same_file (incs : List FileInclude) (fi : FileInclude)
    (h : ∃ a ∈ incs, pathComponents a.filename = pathComponents fi.filename) :
    addInclude incs fi = incs := by
  unfold addInclude; rw [if_pos ((contains_iff incs fi).2 h)]

/-- … in particular an include that is already there -/
theorem addInclude_of_mem (incs : List FileInclude) (fi : FileInclude) (h : fi ∈ incs) :
    addInclude incs fi = incs :=
  addInclude_of_same_file incs fi ⟨fi, h, rfl⟩

theorem addInclude_of_new_file (incs : List FileInclude) (fi : FileInclude)
    (h : ∀ a ∈ incs, pathComponents a.filename ≠ pathComponents fi.filename) :
    addInclude incs fi = incs ++ [fi] := by
  unfold addInclude
  rw [if_neg (fun hc => by
    obtain ⟨a, ha, e⟩ := (contains_iff incs fi).1 hc
    exact h a ha e)]

/-- `addInclude` either leaves the work-list alone (the file is known) or appends the include (no
    entry names its file) -/
theorem addInclude_cases (incs : List FileInclude) (fi : FileInclude) :
    ((∃ a ∈ incs, pathComponents a.filename = pathComponents fi.filename) ∧ addInclude incs fi = incs) ∨
    ((∀ a ∈ incs, pathComponents a.filename ≠ pathComponents fi.filename) ∧
      addInclude incs fi = incs ++ [fi]) := by
  by_cases hm : ∃ a ∈ incs, pathComponents a.filename = pathComponents fi.filename
  · exact Or.inl ⟨hm, addInclude_of_same_file incs fi hm⟩
  · have hm' : ∀ a ∈ incs, pathComponents a.filename ≠ pathComponents fi.filename :=
      fun a ha e => hm ⟨a, ha, e⟩
    exact Or.inr ⟨hm', addInclude_of_new_file incs fi hm'⟩

/-- (a) the work-list keeps naming pairwise different files -/
theorem addInclude_distinct (incs : List FileInclude) (fi : FileInclude) (h : DistinctFiles incs) :
    DistinctFiles (addInclude incs fi) := by
  rcases addInclude_cases incs fi with ⟨_, e⟩ | ⟨hm, e⟩
  · rw [e]; exact h
  · rw [e]
    unfold DistinctFiles at *
    rw [List.pairwise_append]
    refine ⟨h, by simp, ?_⟩
    intro a ha b hb
    rw [List.mem_singleton] at hb
    rw [hb]
    exact hm a ha

/-- (a) the work-list stays duplicate-free (also from a work-list that is merely duplicate-free) -/
theorem addInclude_nodup (incs : List FileInclude) (fi : FileInclude) (h : incs.Nodup) :
    (addInclude incs fi).Nodup := by
  rcases addInclude_cases incs fi with ⟨_, e⟩ | ⟨hm, e⟩
  · rw [e]; exact h
  · rw [e, List.nodup_append]
    refine ⟨h, by simp, ?_⟩
    intro a ha b hb
    rw [List.mem_singleton] at hb
    intro hab
    exact hm a ha (by rw [hab, hb])

/-- the work-list only grows at its end: entries already there keep their position -/
theorem addInclude_prefix (incs : List FileInclude) (fi : FileInclude) : incs <+: addInclude incs fi := by
  unfold addInclude
  split
  · exact List.prefix_refl incs
  · exact List.prefix_append incs [fi]

/-- after `addInclude` the FILE is on the work-list (the include itself only if the file was new) -/
theorem addInclude_mem (incs : List FileInclude) (fi : FileInclude) :
    ∃ a ∈ addInclude incs fi, pathComponents a.filename = pathComponents fi.filename := by
  rcases addInclude_cases incs fi with ⟨hm, e⟩ | ⟨_, e⟩
  · rw [e]; exact hm
  · rw [e]; exact ⟨fi, by simp, rfl⟩

theorem foldl_addInclude_distinct (l incs : List FileInclude) (h : DistinctFiles incs) :
    DistinctFiles (l.foldl addInclude incs) := by
  induction l generalizing incs with
  | nil => exact h
  | cons a t ih => exact ih _ (addInclude_distinct incs a h)

theorem foldl_addInclude_nodup (l incs : List FileInclude) (h : incs.Nodup) : (l.foldl addInclude incs).Nodup := by
  induction l generalizing incs with
  | nil => exact h
  | cons a t ih => exact ih _ (addInclude_nodup incs a h)

theorem foldl_addInclude_prefix (l incs : List FileInclude) : incs <+: l.foldl addInclude incs := by
  induction l generalizing incs with
  | nil => exact List.prefix_refl incs
  | cons a t ih => exact (addInclude_prefix incs a).trans (ih _)

theorem docIncludes_nodup (rel : String) (incs : List FileInclude) (nd : LDoc) (h : incs.Nodup) :
    (docIncludes rel incs nd).Nodup :=
  foldl_addInclude_nodup _ _ (foldl_addInclude_nodup _ _ h)

theorem docIncludes_distinct (rel : String) (incs : List FileInclude) (nd : LDoc) (h : DistinctFiles incs) :
    DistinctFiles (docIncludes rel incs nd) :=
  foldl_addInclude_distinct _ _ (foldl_addInclude_distinct _ _ h)

theorem docIncludes_prefix (rel : String) (incs : List FileInclude) (nd : LDoc) :
    incs <+: docIncludes rel incs nd :=
  (foldl_addInclude_prefix _ _).trans (foldl_addInclude_prefix _ _)

theorem foldl_docIncludes_nodup (rel : String) (nds : List LDoc) (incs : List FileInclude) (h : incs.Nodup) :
    (nds.foldl (docIncludes rel) incs).Nodup := by
  induction nds generalizing incs with
  | nil => exact h
  | cons a t ih => exact ih _ (docIncludes_nodup rel incs a h)

theorem foldl_docIncludes_distinct (rel : String) (nds : List LDoc) (incs : List FileInclude)
    (h : DistinctFiles incs) : DistinctFiles (nds.foldl (docIncludes rel) incs) := by
  induction nds generalizing incs with
  | nil => exact h
  | cons a t ih => exact ih _ (docIncludes_distinct rel incs a h)

theorem foldl_docIncludes_prefix (rel : String) (nds : List LDoc) (incs : List FileInclude) :
    incs <+: nds.foldl (docIncludes rel) incs := by
  induction nds generalizing incs with
  | nil => exact List.prefix_refl incs
  | cons a t ih => exact (docIncludes_prefix rel incs a).trans (ih _)

/-- the documents of the file `inc` names, numbered from `start` -/
def docsOfFile (inc : FileInclude) (start : Nat) (ds : List YDoc) : List LDoc :=
  ds.zipIdx.map (mkLDoc inc start)

/-- (b) every document carries the file name and the includer of the include being processed … -/
theorem docsOfFile_filename (inc : FileInclude) (start : Nat) (ds : List YDoc) (d : LDoc)
    (h : d ∈ docsOfFile inc start ds) : d.filename = inc.filename ∧ d.includedBy = inc.includedBy := by
  unfold docsOfFile at h
  rw [List.mem_map] at h
  obtain ⟨dn, _, rfl⟩ := h
  exact ⟨rfl, rfl⟩

/-- (b) … and consecutive indices starting at `start` -/
theorem docsOfFile_idx (inc : FileInclude) (start : Nat) (ds : List YDoc) :
    (docsOfFile inc start ds).map (·.idx) = (List.range ds.length).map (start + ·) := by
  unfold docsOfFile
  rw [List.map_map]
  have : ((fun x : LDoc => x.idx) ∘ mkLDoc inc start) = (fun n => start + n) ∘ Prod.snd := by
    funext dn; rfl
  rw [this, ← List.map_map, List.zipIdx_map_snd, List.range_eq_range']

theorem docsOfFile_length (inc : FileInclude) (start : Nat) (ds : List YDoc) :
    (docsOfFile inc start ds).length = ds.length := by
  simp [docsOfFile]

/-- the documents are numbered by their position -/
def Numbered (docs : List LDoc) : Prop := docs.map (·.idx) = List.range docs.length

theorem numbered_append (docs : List LDoc) (inc : FileInclude) (ds : List YDoc) (h : Numbered docs) :
    Numbered (docs ++ docsOfFile inc docs.length ds) := by
  unfold Numbered at *
  rw [List.map_append, h, docsOfFile_idx, List.length_append, docsOfFile_length, List.range_add]

/-- reading the includes of a work-list one after the other (a file that cannot be read stops
    nothing here: `loadFiles` has failed before) -/
def readAll (fs : Files) : List FileInclude → List LDoc → List LDoc
  | [], docs => docs
  | inc :: rest, docs =>
    match fs.find? (fun fd => pathComponents fd.1 == pathComponents inc.filename) with
    | none => docs
    | some fd => readAll fs rest (docs ++ docsOfFile inc docs.length fd.2)

theorem getElem?_of_prefix {α} {l l' : List α} (h : l <+: l') {i : Nat} {a : α} (hi : l[i]? = some a) :
    l'[i]? = some a := by
  obtain ⟨t, rfl⟩ := h
  rw [List.getElem?_append_left]
  · exact hi
  · exact (List.getElem?_eq_some_iff.1 hi).1

/-- **C17, work-list** — for a successful `loadFiles`:
    (a) the work-list stays duplicate-free, keeps naming pairwise different FILES, and only grows
        at its end;
    (b) the documents stay numbered by position;
    (c) the documents are exactly those of the includes of the FINAL work-list from `pos` on, each
        include read once, in work-list order (so, with (a): each FILE is read once). -/
theorem loadFiles_spec (fs : Files) (fuel pos : Nat) (incs : List FileInclude) (docs docs' : List LDoc)
    (incs' : List FileInclude) (h : loadFiles fs fuel pos incs docs = .ok (docs', incs')) :
    incs <+: incs' ∧ (incs.Nodup → incs'.Nodup) ∧ (DistinctFiles incs → DistinctFiles incs') ∧
      (Numbered docs → Numbered docs') ∧ docs' = readAll fs (incs'.drop pos) docs := by
  induction fuel generalizing pos incs docs with
  | zero =>
    unfold loadFiles at h
    split at h
    · cases h
    · rename_i hlt
      cases h
      refine ⟨List.prefix_refl _, id, id, id, ?_⟩
      rw [List.drop_eq_nil_of_le (Nat.le_of_not_lt hlt)]; rfl
  | succ fuel ih =>
    unfold loadFiles at h
    cases hp : incs[pos]? with
    | none =>
      rw [hp] at h; cases h
      refine ⟨List.prefix_refl _, id, id, id, ?_⟩
      rw [List.drop_eq_nil_of_le (List.getElem?_eq_none_iff.1 hp)]; rfl
    | some inc =>
      rw [hp] at h
      simp only at h
      cases hf : fs.find? (fun fd => pathComponents fd.1 == pathComponents inc.filename) with
      | none => rw [hf] at h; cases h
      | some fd =>
        rw [hf] at h
        simp only at h
        obtain ⟨hpre, hnd, hdf, hnum, hdocs⟩ := ih _ _ _ h
        have hpre0 := foldl_docIncludes_prefix (pathParent inc.filename)
          (fd.2.zipIdx.map (mkLDoc inc docs.length)) incs
        have hpre' : incs <+: incs' := hpre0.trans hpre
        refine ⟨hpre', fun hn => hnd (foldl_docIncludes_nodup _ _ _ hn),
          fun hn => hdf (foldl_docIncludes_distinct _ _ _ hn),
          fun hn => hnum (numbered_append docs inc fd.2 hn), ?_⟩
        have hget : incs'[pos]? = some inc := getElem?_of_prefix hpre' hp
        have hlt : pos < incs'.length := (List.getElem?_eq_some_iff.1 hget).1
        have hdrop : incs'.drop pos = inc :: incs'.drop (pos + 1) := by
          rw [List.drop_eq_getElem_cons hlt]
          congr 1
          exact (List.getElem?_eq_some_iff.1 hget).2
        rw [hdrop, readAll, hf]
        exact hdocs

/-- from the project file: the work-list names pairwise different files (so it is duplicate-free),
    documents are numbered by position and are the documents of the work-list entries, each read
    once, in order: every lazefile is read ONCE -/
theorem load_work_list (fs : Files) (fuel : Nat) (project : String) (docs' : List LDoc)
    (incs' : List FileInclude) (h : loadFiles fs fuel 0 [⟨project, none⟩] [] = .ok (docs', incs')) :
    DistinctFiles incs' ∧ incs'.Nodup ∧ incs'.head? = some ⟨project, none⟩ ∧ Numbered docs' ∧
      docs' = readAll fs incs' [] := by
  obtain ⟨hpre, _, hdf, hnum, hdocs⟩ := loadFiles_spec fs fuel 0 _ _ _ _ h
  have hd : DistinctFiles incs' := hdf (by simp [DistinctFiles])
  refine ⟨hd, hd.nodup, ?_, hnum rfl, hdocs⟩
  obtain ⟨t, rfl⟩ := hpre
  rfl

/-- (c) `hang`: when the fuel runs out the work-list (which only ever grows at its end) has more
    than `pos + fuel` entries: after `fuel` more files were read there is still an unread one -/
theorem loadFiles_hang (fs : Files) (fuel pos : Nat) (incs : List FileInclude) (docs : List LDoc) (w : String)
    (h : loadFiles fs fuel pos incs docs = .error (.hang w)) :
    ∃ incs', incs <+: incs' ∧ pos + fuel < incs'.length := by
  induction fuel generalizing pos incs docs with
  | zero =>
    unfold loadFiles at h
    split at h
    · rename_i hlt; exact ⟨incs, List.prefix_refl _, hlt⟩
    · cases h
  | succ fuel ih =>
    unfold loadFiles at h
    cases hp : incs[pos]? with
    | none => rw [hp] at h; cases h
    | some inc =>
      rw [hp] at h
      simp only at h
      cases hf : fs.find? (fun fd => pathComponents fd.1 == pathComponents inc.filename) with
      | none => rw [hf] at h; cases h
      | some fd =>
        rw [hf] at h
        simp only at h
        obtain ⟨incs', hpre, hlen⟩ := ih _ _ _ h
        exact ⟨incs', (foldl_docIncludes_prefix _ _ _).trans hpre, by omega⟩

/-- the (normalised) names of the files that can be read -/
def fileKeys (fs : Files) : List (List String) := fs.map (fun fd => pathComponents fd.1)

theorem fileKeys_of_find {fs : Files} {inc : FileInclude} {fd : String × List YDoc}
    (h : fs.find? (fun fd => pathComponents fd.1 == pathComponents inc.filename) = some fd) :
    fkey inc ∈ fileKeys fs := by
  have h1 := List.find?_some h
  have h2 := List.mem_of_find?_eq_some h
  have h3 : pathComponents fd.1 = pathComponents inc.filename := by simpa using h1
  unfold fileKeys fkey
  rw [← h3]
  exact List.mem_map_of_mem h2

/-- `hang`, refined: the entries before `pos` are the ones that were read; if they name pairwise
    different existing files, then so do the `pos + fuel` first entries of the final work-list -/
theorem loadFiles_hang_read (fs : Files) (fuel pos : Nat) (incs : List FileInclude) (docs : List LDoc)
    (w : String) (h : loadFiles fs fuel pos incs docs = .error (.hang w))
    (hd : DistinctFiles incs) (hr : ∀ a ∈ incs.take pos, fkey a ∈ fileKeys fs) :
    ∃ incs', incs <+: incs' ∧ DistinctFiles incs' ∧ pos + fuel < incs'.length ∧
      ∀ a ∈ incs'.take (pos + fuel), fkey a ∈ fileKeys fs := by
  induction fuel generalizing pos incs docs with
  | zero =>
    unfold loadFiles at h
    split at h
    · rename_i hlt; exact ⟨incs, List.prefix_refl _, hd, hlt, hr⟩
    · cases h
  | succ fuel ih =>
    unfold loadFiles at h
    cases hp : incs[pos]? with
    | none => rw [hp] at h; cases h
    | some inc =>
      rw [hp] at h
      simp only at h
      cases hf : fs.find? (fun fd => pathComponents fd.1 == pathComponents inc.filename) with
      | none => rw [hf] at h; cases h
      | some fd =>
        rw [hf] at h
        simp only at h
        have hpre0 := foldl_docIncludes_prefix (pathParent inc.filename)
          (fd.2.zipIdx.map (mkLDoc inc docs.length)) incs
        have hd2 := foldl_docIncludes_distinct (pathParent inc.filename)
          (fd.2.zipIdx.map (mkLDoc inc docs.length)) incs hd
        have hlt : pos < incs.length := (List.getElem?_eq_some_iff.1 hp).1
        obtain ⟨incs', hpre, hd', hlen, hr'⟩ := ih (pos + 1) _ _ h hd2 (by
          intro a ha
          obtain ⟨t, ht⟩ := hpre0
          rw [← ht, List.take_append_of_le_length (by omega), List.take_add_one, hp] at ha
          rw [List.mem_append] at ha
          rcases ha with ha | ha
          · exact hr a ha
          · have : a = inc := by simpa using ha
            rw [this]
            exact fileKeys_of_find hf)
        have e : pos + (fuel + 1) = pos + 1 + fuel := by omega
        rw [e]
        exact ⟨incs', hpre0.trans hpre, hd', hlen, hr'⟩

/-- **no `hang` any more**: every file is read at most once, so with more fuel than there are
    files the work-list loop always ends — with the documents or with "cannot read file".
    (Before the fix of the work-list's identity this was FALSE: a self-including file ran out of
    every fuel.) -/
theorem loadFiles_no_hang (fs : Files) (fuel : Nat) (project : String) (w : String)
    (hfuel : fs.length < fuel) :
    loadFiles fs fuel 0 [⟨project, none⟩] [] ≠ .error (.hang w) := by
  intro h
  obtain ⟨incs', _, hd, hlen, hr⟩ := loadFiles_hang_read fs fuel 0 _ _ w h
    (by simp [DistinctFiles]) (by simp)
  rw [Nat.zero_add] at hlen hr
  have hnd : ((incs'.take fuel).map fkey).Nodup := by
    rw [List.map_take]
    exact ((distinctFiles_iff incs').1 hd).sublist (List.take_sublist _ _)
  have hsub : (incs'.take fuel).map fkey ⊆ fileKeys fs := by
    intro k hk
    obtain ⟨a, ha, rfl⟩ := List.mem_map.1 hk
    exact hr a ha
  have hle := hnd.length_le_of_subset hsub
  rw [List.length_map, List.length_take, fileKeys, List.length_map] at hle
  omega

/-- in particular the call `load` makes never reports `hang` -/
theorem load_files_no_hang (fs : Files) (project : String) (w : String) :
    loadFiles fs (4 * fs.length + 8) 0 [⟨project, none⟩] [] ≠ .error (.hang w) :=
  loadFiles_no_hang fs _ project w (by omega)

/-- `${relpath}`: the module's relpath and the early env always name the directory of the lazefile
    the module is written in — also when the defaults were inherited from another file -/
theorem module_relpath {y : YModule} {c : Option String} {isB : Bool} {f : String} {d : Option Module}
    {bd : String} {m : Module} (h : convertModule y c isB f d bd = .ok m) :
    m.relpath = relpathOf f ∧ m.definedIn = f ∧
    m.envEarly.get "relpath" = some (.single (relpathOf f)) ∧
    m.envEarly.get "root" = some (.single ".") ∧
    ∃ sd, m.srcdir = some sd ∧ m.envEarly.get "srcdir" = some (.single sd) ∧
      sd = y.srcdir.getD (defaultSrcdir y bd (relpathOf f) (moduleNameOf y f)) := by
  obtain ⟨selA, uses, deps, h1, h2, h3, _⟩ := convertModule_spec h
  obtain ⟨p, _⟩ := convertModule_prefixed h h1 h2 h3
  refine ⟨p.relpath, p.definedIn, ?_, ?_, _, p.srcdir, ?_, rfl⟩
  · rw [p.envEarly, C09.insert_get, C09.insert_get, C09.insert_get]; simp
  · rw [p.envEarly, C09.insert_get, C09.insert_get]; simp
  · rw [p.envEarly, C09.insert_get]; simp

/-- without `srcdir:` and `download:` the source directory is the lazefile's directory -/
theorem module_srcdir_default {y : YModule} {c : Option String} {isB : Bool} {f : String} {d : Option Module}
    {bd : String} {m : Module} (h : convertModule y c isB f d bd = .ok m)
    (hs : y.srcdir = none) (hd : y.download = none) :
    m.srcdir = some (if relpathOf f != "." then relpathOf f else "") := by
  obtain ⟨sd, h1, _, h3⟩ := (module_relpath h).2.2.2.2
  rw [h1, h3, hs]
  simp only [Option.getD_none, defaultSrcdir, hd]

namespace WorkList
/-- two documents of the project file list the same subdirectory -/
def fs : Files :=
  [("laze.yml", [{ subdirs := some ["a"] }, { subdirs := some ["a"] }]), ("a/laze.yml", [{}])]

/-- what a successful `loadFiles` read: (file name, index, includer) of each document, and the work-list -/
def summary (r : Except LErr (List LDoc × List FileInclude)) :
    Option (List (String × Nat × Option Nat) × List FileInclude) :=
  match r with
  | .ok (docs, incs) => some (docs.map (fun d => (d.filename, d.idx, d.includedBy)), incs)
  | .error _ => none

-- `a/laze.yml` is read ONCE (for the first document that lists it): 3 documents, 2 work-list entries.
-- (`decide (_ = _)`: `==` on includes only compares the file names. These facts are `#guard`s, not
-- `decide` proofs, because `String.splitOn` inside `pathComponents` does not reduce in the kernel.)
#guard decide (summary (loadFiles fs 10 0 [⟨"laze.yml", none⟩] []) =
    some ([("laze.yml", 0, none), ("laze.yml", 1, none), ("a/laze.yml", 2, some 0)],
      [⟨"laze.yml", none⟩, ⟨"a/laze.yml", some 0⟩]))

/-- a file that includes itself (also under names with redundant separators) -/
def selfInc : Files := [("laze.yml", [{ includes := some ["laze.yml", "laze.yml/", "laze.yml/."] }])]
-- … is read once: the work-list is keyed by the (normalised) file name; `load` succeeds, no `hang`
#guard decide (summary (loadFiles selfInc 10 0 [⟨"laze.yml", none⟩] []) =
    some ([("laze.yml", 0, none)], [⟨"laze.yml", none⟩]))
#guard (match load selfInc "laze.yml" "build" with
  | .ok (b, files) => b.contexts.map (·.name) == ["default"] && files == ["laze.yml"]
  | .error _ => false)

/-- `..` and a leading `.` are NOT normalised away (as in `Path::components`): these spellings name
    other files, which the model's file table does not have -/
def selfInc2 : Files := [("laze.yml", [{ includes := some ["sub/../laze.yml"] }])]
def selfInc3 : Files := [("laze.yml", [{ includes := some ["./laze.yml"] }])]
#guard (match load selfInc2 "laze.yml" "build" with
  | .error (.error "cannot read file") => true
  | _ => false)
#guard (match load selfInc3 "laze.yml" "build" with
  | .error (.error "cannot read file") => true
  | _ => false)
end WorkList

/-! ## 6. C14, inheritance: options set on a parent context apply to its descendants unless they
    define their own -/

theorem findCtx_name {cs : List Context} {n : Name} {c : Context} (h : findCtx cs n = some c) : c.name = n := by
  have := List.find?_some h
  simpa using this

theorem findCtx_updateCtx (cs : List Context) (n : Name) (f : Context → Context)
    (hf : ∀ c, (f c).name = c.name) (n' : Name) :
    findCtx (updateCtx cs n f) n' = (findCtx cs n').map (fun c => if c.name == n then f c else c) := by
  unfold findCtx updateCtx
  induction cs with
  | nil => rfl
  | cons c t ih =>
    rw [List.map_cons, List.find?_cons, List.find?_cons]
    have hn : ((if c.name == n then f c else c).name == n') = (c.name == n') := by
      split <;> simp [hf]
    rw [hn]
    cases c.name == n'
    · exact ih
    · rfl

/-- the options a context ends up with: its own if it has some, else its parent's -/
def ownOr (own parent : Option VarOpts) : Option VarOpts :=
  match own with
  | some o => some o
  | none => parent

theorem setVarOptions_self (c : Context) : setVarOptions c.varOptions c = c := rfl

theorem inheritVarOptions_step (cs : List Context) (n : Name) (k : Nat) (c par : Context) (hk : k ≠ 0)
    (hc : findCtx cs n = some c) (hp : parentCtx cs c = some par) :
    findCtx (inheritVarOptions cs (n, k)) n = some (setVarOptions (ownOr c.varOptions par.varOptions) c) ∧
    ∀ n', n' ≠ n → findCtx (inheritVarOptions cs (n, k)) n' = findCtx cs n' := by
  have hk' : (k == 0) = false := by simp [hk]
  have hname := findCtx_name hc
  unfold inheritVarOptions
  simp only [hk', Bool.false_eq_true, if_false, hc, hp]
  cases hv : c.varOptions with
  | some o =>
    simp only [Option.isNone_some, Bool.false_eq_true, if_false]
    refine ⟨?_, fun _ _ => trivial⟩
    rw [hc, ownOr, ← hv]; rfl
  | none =>
    simp only [Option.isNone_none, if_true]
    constructor
    · rw [findCtx_updateCtx cs n (setVarOptions par.varOptions) (fun _ => rfl), hc]
      simp [hname, ownOr]
    · intro n' hn'
      rw [findCtx_updateCtx cs n (setVarOptions par.varOptions) (fun _ => rfl)]
      cases hf : findCtx cs n' with
      | none => rfl
      | some c' =>
        have := findCtx_name hf
        have hb : (c'.name == n) = false := by rw [this]; simp [hn']
        simp only [Option.map_some, hb, Bool.false_eq_true, if_false]

/-- roots (recorded parent count 0) are never touched -/
theorem inheritVarOptions_root (cs : List Context) (n : Name) : inheritVarOptions cs (n, 0) = cs := by
  unfold inheritVarOptions; simp

/-- "unless they define their own": a context with own options keeps them -/
theorem inheritVarOptions_own (cs : List Context) (n : Name) (k : Nat) (c : Context) (o : VarOpts)
    (hc : findCtx cs n = some c) (ho : c.varOptions = some o) : inheritVarOptions cs (n, k) = cs := by
  unfold inheritVarOptions
  split
  · rfl
  · rw [hc]
    simp only
    split
    · rfl
    · simp [ho]

/-- **two levels**: grandparent `g` (already final), parent `p`, child `c`, processed in this
    order: the child gets its own options, else the parent's own, else the grandparent's -/
theorem inherit_two_levels (cs : List Context) (g p c : Context) (k1 k2 : Nat) (hk1 : k1 ≠ 0) (hk2 : k2 ≠ 0)
    (hg : findCtx cs g.name = some g) (hp : findCtx cs p.name = some p) (hc : findCtx cs c.name = some c)
    (hpp : p.parent = some g.name) (hcp : c.parent = some p.name) (hne : c.name ≠ p.name) :
    findCtx ([(p.name, k1), (c.name, k2)].foldl inheritVarOptions cs) c.name =
      some (setVarOptions (ownOr c.varOptions (ownOr p.varOptions g.varOptions)) c) := by
  have s1 := inheritVarOptions_step cs p.name k1 p g hk1 hp (by unfold parentCtx; rw [hpp]; exact hg)
  have hc1 : findCtx (inheritVarOptions cs (p.name, k1)) c.name = some c := by rw [s1.2 c.name hne]; exact hc
  have hpar : parentCtx (inheritVarOptions cs (p.name, k1)) c =
      some (setVarOptions (ownOr p.varOptions g.varOptions) p) := by
    unfold parentCtx; rw [hcp]; exact s1.1
  exact (inheritVarOptions_step _ c.name k2 c _ hk2 hc1 hpar).1

/-- `r` are the options of the nearest context on the parent chain of `n` (`n` itself first)
    that defines some; `none` if the chain ends at a root without any -/
inductive Nearest (cs : List Context) : Name → Option VarOpts → Prop where
  | own {n c o} : findCtx cs n = some c → c.varOptions = some o → Nearest cs n (some o)
  | root {n c} : findCtx cs n = some c → c.varOptions = none → c.parent = none → Nearest cs n none
  | up {n c p r} : findCtx cs n = some c → c.varOptions = none → c.parent = some p → Nearest cs p r →
      Nearest cs n r

theorem Nearest.unique {cs : List Context} {n : Name} {r r' : Option VarOpts}
    (h : Nearest cs n r) (h' : Nearest cs n r') : r = r' := by
  induction h generalizing r' with
  | own hc hv =>
    cases h' with
    | own hc' hv' => rw [hc] at hc'; cases hc'; rw [hv] at hv'; exact hv'
    | root hc' hv' _ => rw [hc] at hc'; cases hc'; rw [hv] at hv'; cases hv'
    | up hc' hv' _ _ => rw [hc] at hc'; cases hc'; rw [hv] at hv'; cases hv'
  | root hc hv hp =>
    cases h' with
    | own hc' hv' => rw [hc] at hc'; cases hc'; rw [hv] at hv'; cases hv'
    | root _ _ _ => rfl
    | up hc' _ hp' _ => rw [hc] at hc'; cases hc'; rw [hp] at hp'; cases hp'
  | up hc hv hp _ ih =>
    cases h' with
    | own hc' hv' => rw [hc] at hc'; cases hc'; rw [hv] at hv'; cases hv'
    | root hc' _ hp' => rw [hc] at hc'; cases hc'; rw [hp] at hp'; cases hp'
    | up hc' _ hp' hn' => rw [hc] at hc'; cases hc'; rw [hp] at hp'; cases hp'; exact ih hn'

theorem Nearest.of_root {cs : List Context} {n : Name} {c : Context} (hc : findCtx cs n = some c)
    (hp : c.parent = none) : Nearest cs n c.varOptions := by
  cases hv : c.varOptions with
  | some o => exact .own hc hv
  | none => exact .root hc hv hp

/-- the sort order `finalize` needs: the entry of a non-root parent comes before its children's -/
def ParentsFirst (cs : List Context) (sorted : List (Name × Nat)) : Prop :=
  ∀ pre nk post, sorted = pre ++ nk :: post → ∀ c p, findCtx cs nk.1 = some c → c.parent = some p →
    ∃ pc, findCtx cs p = some pc ∧ (pc.parent = none ∨ p ∈ pre.map (·.1))

/-- the recorded parent count is zero exactly for roots -/
def CountsOK (cs : List Context) (sorted : List (Name × Nat)) : Prop :=
  ∀ nk ∈ sorted, ∀ c, findCtx cs nk.1 = some c → (nk.2 = 0 ↔ c.parent = none)

def VoInv (cs : List Context) (done : List (Name × Nat)) (cur : List Context) : Prop :=
  (∀ n c, findCtx cs n = some c → ∃ r, findCtx cur n = some (setVarOptions r c) ∧
      (n ∈ done.map (·.1) → Nearest cs n r) ∧ (n ∉ done.map (·.1) → r = c.varOptions)) ∧
  (∀ n, findCtx cs n = none → findCtx cur n = none)

theorem inv_step (cs : List Context) (sorted : List (Name × Nat))
    (H1 : (sorted.map (·.1)).Nodup) (H2 : ParentsFirst cs sorted) (H3 : CountsOK cs sorted)
    (done : List (Name × Nat)) (nk : Name × Nat) (todo : List (Name × Nat))
    (hs : sorted = done ++ nk :: todo) (cur : List Context) (hI : VoInv cs done cur) :
    VoInv cs (done ++ [nk]) (inheritVarOptions cur nk) := by
  obtain ⟨n, k⟩ := nk
  have hmem : (n, k) ∈ sorted := by rw [hs]; simp
  have hnd : n ∉ done.map (·.1) := by
    rw [hs, List.map_append, List.map_cons, List.nodup_append] at H1
    intro hin
    exact H1.2.2 n hin n (by simp) rfl
  have hmem' : ∀ n', n' ∈ (done ++ [(n, k)]).map (·.1) ↔ n' ∈ done.map (·.1) ∨ n' = n := by
    intro n'; simp
  -- the cases in which nothing changes
  have unchanged : inheritVarOptions cur (n, k) = cur →
      (∀ c, findCtx cs n = some c → c.parent = none) → VoInv cs (done ++ [(n, k)]) (inheritVarOptions cur (n, k)) := by
    intro he hroot
    rw [he]
    refine ⟨?_, hI.2⟩
    intro n' c' hc'
    obtain ⟨r, h1, h2, h3⟩ := hI.1 n' c' hc'
    refine ⟨r, h1, ?_, ?_⟩
    · intro hin
      rcases (hmem' n').1 hin with hin | rfl
      · exact h2 hin
      · rw [h3 hnd]; exact Nearest.of_root hc' (hroot c' hc')
    · intro hnin
      exact h3 (fun hin => hnin ((hmem' n').2 (Or.inl hin)))
  by_cases hk : k = 0
  · apply unchanged
    · unfold inheritVarOptions; simp [hk]
    · intro c hc; exact (H3 (n, k) hmem c hc).1 hk
  · cases hc : findCtx cs n with
    | none =>
      apply unchanged
      · unfold inheritVarOptions
        have hk' : (k == 0) = false := by simp [hk]
        simp only [hk', Bool.false_eq_true, if_false, hI.2 n hc]
      · intro c hc'; rw [hc] at hc'; cases hc'
    | some c =>
      obtain ⟨r, hcur, _, hr⟩ := hI.1 n c hc
      rw [hr hnd, setVarOptions_self] at hcur
      have hpar : c.parent ≠ none := fun hp => hk ((H3 (n, k) hmem c hc).2 hp)
      cases hp : c.parent with
      | none => exact absurd hp hpar
      | some p =>
        obtain ⟨pc, hpc, hpd⟩ := H2 done (n, k) todo hs c p hc hp
        obtain ⟨rp, hpcur, hp2, hp3⟩ := hI.1 p pc hpc
        have hnp : Nearest cs p rp := by
          by_cases hin : p ∈ done.map (·.1)
          · exact hp2 hin
          · rw [hp3 hin]
            rcases hpd with hroot | hin'
            · exact Nearest.of_root hpc hroot
            · exact absurd hin' hin
        have hparent : parentCtx cur c = some (setVarOptions rp pc) := by
          unfold parentCtx; rw [hp]; exact hpcur
        obtain ⟨hnew, hother⟩ := inheritVarOptions_step cur n k c _ hk hcur hparent
        have hnear : Nearest cs n (ownOr c.varOptions rp) := by
          cases hv : c.varOptions with
          | some o => exact .own hc hv
          | none => exact .up hc hv hp hnp
        constructor
        · intro n' c' hc'
          by_cases hnn : n' = n
          · subst hnn
            rw [hc] at hc'; cases hc'
            exact ⟨_, hnew, fun _ => hnear, fun hnin => absurd ((hmem' n').2 (Or.inr rfl)) hnin⟩
          · obtain ⟨r', h1, h2, h3⟩ := hI.1 n' c' hc'
            refine ⟨r', by rw [hother n' hnn]; exact h1, ?_, ?_⟩
            · intro hin
              rcases (hmem' n').1 hin with hin | he
              · exact h2 hin
              · exact absurd he hnn
            · intro hnin
              exact h3 (fun hin => hnin ((hmem' n').2 (Or.inl hin)))
        · intro n' hn'
          by_cases hnn : n' = n
          · subst hnn; rw [hc] at hn'; cases hn'
          · rw [hother n' hnn]; exact hI.2 n' hn'

theorem inv_fold (cs : List Context) (sorted : List (Name × Nat))
    (H1 : (sorted.map (·.1)).Nodup) (H2 : ParentsFirst cs sorted) (H3 : CountsOK cs sorted)
    (todo done : List (Name × Nat)) (hs : sorted = done ++ todo) (cur : List Context) (hI : VoInv cs done cur) :
    VoInv cs sorted (todo.foldl inheritVarOptions cur) := by
  induction todo generalizing done cur with
  | nil => rw [List.append_nil] at hs; rw [hs]; exact hI
  | cons nk rest ih =>
    rw [List.foldl_cons]
    apply ih (done ++ [nk])
    · rw [hs]; simp
    · exact inv_step cs sorted H1 H2 H3 done nk rest hs cur hI

/-- **C14, inheritance of var_options** (the options pass of `finalize`, for ANY list processed
    parents-first): every listed context ends up with the options of the nearest context on its
    parent chain — itself first — that defines some; nothing else of the context changes. -/
theorem inherit_nearest (cs : List Context) (sorted : List (Name × Nat))
    (H1 : (sorted.map (·.1)).Nodup) (H2 : ParentsFirst cs sorted) (H3 : CountsOK cs sorted)
    (n : Name) (c : Context) (hc : findCtx cs n = some c) (hn : n ∈ sorted.map (·.1)) :
    ∃ r, findCtx (sorted.foldl inheritVarOptions cs) n = some (setVarOptions r c) ∧ Nearest cs n r := by
  have h0 : VoInv cs [] cs := by
    refine ⟨fun n c hc => ⟨c.varOptions, by rw [setVarOptions_self]; exact hc, ?_, fun _ => rfl⟩, fun _ h => h⟩
    intro h; cases h
  obtain ⟨r, h1, h2, _⟩ := (inv_fold cs sorted H1 H2 H3 sorted [] rfl cs h0).1 n c hc
  exact ⟨r, h1, h2 hn⟩

/-! NOT proved (the `finalize`-level bridge): that the list `finalize` actually folds over,
    `sortByCount (parentCounts cs)`, satisfies `Nodup`/`ParentsFirst`/`CountsOK` when context names
    are unique and all parents are known, and that the env pass (`mergeParentEnv`) which runs first
    leaves `name`/`parent`/`varOptions` alone. The concrete runs below go through the real
    `finalize`. -/

namespace Inherit
def oA : VarOpts := [("CFLAGS", { joiner := some "," })]
def oB : VarOpts := [("CFLAGS", { «prefix» := some "-D" })]
def g : Context := { name := "default", parent := none, varOptions := some oA }
def p : Context := { name := "p", parent := some "default" }
def c : Context := { name := "c", parent := some "p" }
def q : Context := { name := "q", parent := some "default", varOptions := some oB }
def qc : Context := { name := "qc", parent := some "q" }

def optsOf (r : Except LErr (List Context × List (Name × Nat))) :
    List (String × Option (List (String × MergeOption))) :=
  match r with
  | .ok r => r.1.map (fun x => (x.name, x.varOptions))
  | .error _ => []

-- through the real `finalize` (children listed before their parents): `p` and `c` inherit the
-- root's options, `q` keeps its own and hands them to `qc`
example : optsOf (finalize [qc, c, p, q, g]) =
    [("qc", some oB), ("c", some oA), ("p", some oA), ("q", some oB), ("default", some oA)] := by decide +kernel

-- the hypotheses of `inherit_two_levels` are satisfiable
example : findCtx ([("p", 1), ("c", 2)].foldl inheritVarOptions [g, p, c]) "c" =
    some (setVarOptions (some oA) c) :=
  inherit_two_levels [g, p, c] g p c 1 2 (by decide) (by decide) rfl rfl rfl rfl rfl (by decide)
end Inherit

/-! ## 7. the `context::<name>` module -/

theorem optConcat_getD (a b : Option (List String)) : (optConcat a b).getD [] = a.getD [] ++ b.getD [] := by
  cases a <;> cases b <;> simp [optConcat]

theorem convertContext_ok {y : YContext} {isB : Bool} {f : String} {c : Context} {m : Module}
    (h : convertContext y isB f = .ok (c, m)) :
    ∃ tasks env selects, convertOptTasks (contextEarlyEnv f) y.tasks = .ok tasks ∧
      expandOptEnv (contextEarlyEnv f) y.env = .ok env ∧
      (y.selects.getD []).mapM depFromString = .ok selects ∧
      c = mkContext y isB f env tasks ∧ m = mkContextModule y f selects := by
  unfold convertContext at h
  cases h1 : convertOptTasks (contextEarlyEnv f) y.tasks with
  | error e => simp only [bind, Except.bind, h1] at h; cases h
  | ok t =>
    cases h2 : expandOptEnv (contextEarlyEnv f) y.env with
    | error e => simp only [bind, Except.bind, h1, h2] at h; cases h
    | ok e =>
      cases h3 : (y.selects.getD []).mapM depFromString with
      | error e => simp only [bind, Except.bind, h1, h2, h3] at h; cases h
      | ok sel =>
        simp only [bind, Except.bind, h1, h2, h3, pure, Except.pure] at h
        cases h
        exact ⟨t, e, sel, rfl, rfl, rfl, rfl, rfl⟩

/-- **the context module**: `context::<name>` selects its parent's context module (so the
    parent's selects/disables/provides are inherited through the resolver), disables what the
    context `disables:` and provides what it `provides:`; `provides_unique` = provides + conflicts. -/
theorem ctx_module_selects_parent {y : YContext} {isB : Bool} {f : String} {c : Context} {m : Module}
    (h : convertContext y isB f = .ok (c, m)) :
    m.name = "context::" ++ y.name ∧ m.contextName = y.name ∧ c.name = y.name ∧
    (y.name ≠ "default" → Dep.hard ("context::" ++ y.parent.getD "default") ∈ m.selects ∧
        c.parent = some (y.parent.getD "default")) ∧
    (y.name = "default" → c.parent = none ∧ (y.selects.getD []).mapM depFromString = .ok m.selects) ∧
    (∃ own, (y.selects.getD []).mapM depFromString = .ok own ∧ own <+: m.selects) ∧
    m.conflicts.getD [] = y.disables.getD [] ++ y.providesUnique.getD [] ∧
    m.provides.getD [] = y.provides.getD [] ++ y.providesUnique.getD [] ∧
    c.disable = y.disables ∧ c.varOptions = y.varOptions ∧ c.isBuilder = isB ∧ c.definedIn = f := by
  obtain ⟨tasks, env, selects, _, _, hs, rfl, rfl⟩ := convertContext_ok h
  refine ⟨rfl, rfl, rfl, ?_, ?_, ⟨selects, hs, List.prefix_append _ _⟩, optConcat_getD _ _, optConcat_getD _ _,
    rfl, rfl, rfl, rfl⟩
  · intro hne
    have hb : (y.name == "default") = false := by simp [hne]
    constructor
    · simp only [mkContextModule, hb, contextParentName]
      simp
    · simp only [mkContext, hb, contextParentName]
      simp
  · intro he
    have hb : (y.name == "default") = true := by simp [he]
    constructor
    · simp only [mkContext, hb]; simp
    · simp only [mkContextModule, hb]; simpa using hs

/-- in particular every name a context `disables:` or `provides_unique:` is a conflict of its
    context module, every `provides:`/`provides_unique:` name is provided by it -/
theorem ctx_module_lists {y : YContext} {isB : Bool} {f : String} {c : Context} {m : Module}
    (h : convertContext y isB f = .ok (c, m)) (x : String) :
    (x ∈ m.conflicts.getD [] ↔ x ∈ y.disables.getD [] ∨ x ∈ y.providesUnique.getD []) ∧
    (x ∈ m.provides.getD [] ↔ x ∈ y.provides.getD [] ∨ x ∈ y.providesUnique.getD []) := by
  obtain ⟨_, _, _, _, _, _, hc, hp, _⟩ := ctx_module_selects_parent h
  rw [hc, hp, List.mem_append, List.mem_append]
  exact ⟨Iff.rfl, Iff.rfl⟩

#guard (match convertContext { name := "c", parent := some "p", disables := some ["x"], providesUnique := some ["u"] }
    false "laze.yml" with
  | .ok (_, m) => m.selects == [.hard "context::p"] && m.conflicts == some ["x", "u"] && m.provides == some ["u"]
  | .error _ => false)

end Laze.C17
