import LazeModel.Theorems.C06
/-! C07: object sharing. Two compilations of the same source share an object path iff rule text,
    `always`, and order-only dependencies agree (under the no-collision assumption on the hasher);
    they then emit one statement. Non-shareable rules get a path private to builder and app. -/
namespace Laze.C07
open Laze Laze.C06

/-! ### 6. where objects go -/

/-- non-shareable rule: no hash in the name, builder and app in the path -/
theorem nonshareable_private (st : Settings) (builder app : Name) (rule : Rule) (nr : NinjaRule)
    (h : Option String) (out srcpath : String) (hs : rule.shareable = false) :
    objectPath st builder app rule nr h out srcpath =
      pathPush (pathPush (pathPush (pathPush st.buildDir "objects") builder) app) (pathWithExtension srcpath out) := by
  unfold objectPath objectDir objectExt
  rw [hs]
  rfl

/-- shareable rule: one directory for all builders and apps, the rule/build-deps hash in the name -/
theorem shareable_shared_dir (st : Settings) (builder app : Name) (rule : Rule) (nr : NinjaRule)
    (h : Option String) (out srcpath : String) (hs : rule.shareable = true) :
    objectPath st builder app rule nr h out srcpath =
      pathPush (pathPush st.buildDir "objects") (pathWithExtension srcpath (hashXor nr.hash h ++ "." ++ out)) := by
  unfold objectPath objectDir objectExt
  rw [hs]
  rfl

/-- hence independent of builder and app (and of everything in the laze rule but `shareable`) -/
theorem shareable_independent (st : Settings) (b1 a1 b2 a2 : Name) (rule1 rule2 : Rule) (nr : NinjaRule)
    (h : Option String) (out srcpath : String) (hs1 : rule1.shareable = true) (hs2 : rule2.shareable = true) :
    objectPath st b1 a1 rule1 nr h out srcpath = objectPath st b2 a2 rule2 nr h out srcpath := by
  rw [shareable_shared_dir _ _ _ _ _ _ _ _ hs1, shareable_shared_dir _ _ _ _ _ _ _ _ hs2]

/-! ### 7. equal hash ⇒ one statement -/

theorem hashXor_none (a : String) : hashXor a none = a := rfl

/-- a rule hash is never an xor token (the tokens have different kinds) -/
theorem rule_hash_ne_xor (r : NinjaRule) (a b : String) : r.hash ≠ hashXor a (some b) := by
  intro h
  have := congrArg String.toList h
  simp [NinjaRule.hash, hashXor, hashTok, String.append_assoc] at this

/-- the "no collision" assumptions on `DefaultHasher`, for the hash inputs that occur: rule hashes,
    hashes of build-dep file lists, and their combination. -/
structure HashOK : Prop where
  rule : HashInj
  paths : ∀ l l' : List String, hashPaths "deps" l = hashPaths "deps" l' → l = l'
  xor : ∀ (r r' : NinjaRule) (l l' : List String),
    hashXor r.hash (some (hashPaths "deps" l)) = hashXor r'.hash (some (hashPaths "deps" l')) →
      r.hash = r'.hash ∧ hashPaths "deps" l = hashPaths "deps" l'

/-- equal combined hashes: same rule hash, same build deps as the statements print them (sorted) -/
theorem same_hash (ok : HashOK) {nr1 nr2 : NinjaRule} {c1 c2 : Option (List String)}
    (hx : hashXor nr1.hash (depsHashOf c1) = hashXor nr2.hash (depsHashOf c2)) :
    nr1.hash = nr2.hash ∧ c1.map pathSort = c2.map pathSort := by
  cases c1 with
  | none =>
    cases c2 with
    | none => exact ⟨hx, rfl⟩
    | some l2 => exact absurd hx (rule_hash_ne_xor nr1 _ _)
  | some l1 =>
    cases c2 with
    | none => exact absurd hx.symm (rule_hash_ne_xor nr2 _ _)
    | some l2 =>
      obtain ⟨h1, h2⟩ := ok.xor nr1 nr2 (pathSort l1) (pathSort l2) hx
      exact ⟨h1, by simp only [Option.map_some]; rw [ok.paths _ _ h2]⟩

/-- the hash only depends on the sorted list -/
theorem depsHashOf_congr {c1 c2 : Option (List String)} (h : c1.map pathSort = c2.map pathSort) :
    depsHashOf c1 = depsHashOf c2 := by
  cases c1 <;> cases c2 <;> simp_all [depsHashOf]

/-- the statement only depends on the sorted list of order-only dependencies -/
theorem buildFromRule_deps_congr (nr : NinjaRule) (ins : Option (List String)) (outs : List String)
    {c1 c2 : Option (List String)} (h : c1.map pathSort = c2.map pathSort) :
    buildFromRule nr ins outs c1 = buildFromRule nr ins outs c2 := by
  unfold buildFromRule
  rw [h]

/-- the statement only depends on the rule's name and `always` -/
theorem buildFromRule_congr {nr1 nr2 : NinjaRule} (hn : nr1.name = nr2.name) (ha : nr1.always = nr2.always)
    (ins : Option (List String)) (outs : List String) (deps : Option (List String)) :
    buildFromRule nr1 ins outs deps = buildFromRule nr2 ins outs deps := by
  unfold buildFromRule
  rw [hn, ha]

/-- **same object ⇒ same statement**: two compilations of `srcpath` whose combined hashes agree (that is:
    whose shared object file names agree) have the same rule block, the same compile statement and the
    same extra statements; `addEntry` keeps a single copy of each. -/
theorem same_object_same_statement (ok : HashOK) {nr1 nr2 : NinjaRule} {c1 c2 : Option (List String)}
    (hx : hashXor nr1.hash (depsHashOf c1) = hashXor nr2.hash (depsHashOf c2))
    (localDeps : Option (List String)) (srcTag : Option String) (srcpath obj : String) :
    nr1.render = nr2.render ∧
    buildFromRule nr1 (some [srcpath]) [obj] c1 = buildFromRule nr2 (some [srcpath]) [obj] c2 ∧
    (buildFromRule nr1 (some [srcpath]) [obj] c1).render = (buildFromRule nr2 (some [srcpath]) [obj] c2).render ∧
    compileOut nr1 c1 localDeps srcTag srcpath obj = compileOut nr2 c2 localDeps srcTag srcpath obj := by
  obtain ⟨hh, hcs⟩ := same_hash ok hx
  obtain ⟨hn, hc, hd, hg, hr, hrc, hp, ha⟩ := ok.rule nr1 nr2 hh
  have hb : buildFromRule nr1 (some [srcpath]) [obj] c1 = buildFromRule nr2 (some [srcpath]) [obj] c2 :=
    (buildFromRule_congr hn ha (some [srcpath]) [obj] c1).trans (buildFromRule_deps_congr nr2 _ _ hcs)
  refine ⟨render_determined hn hc hd hg hr hrc hp, hb, by rw [hb], ?_⟩
  unfold compileOut
  rw [hb]

/-- the entry set then holds one copy -/
theorem same_statement_once (es : List String) (s : String) : addEntries es [s, s] = addEntry es s := by
  rw [addEntries_cons, addEntries_cons, addEntries_nil]
  have hm : s ∈ addEntry es s := mem_addEntry.2 (Or.inr rfl)
  have hc : (addEntry es s).contains s = true := by simpa using hm
  generalize addEntry es s = es' at hc
  unfold addEntry
  rw [if_pos hc]

/-! ### 8. converse: identical rule and build deps ⇒ shared object -/

/-- the hash only depends on the hashed fields -/
theorem hash_determined {r1 r2 : NinjaRule}
    (hn : r1.name = r2.name) (hc : r1.command = r2.command) (hd : r1.description = r2.description)
    (hg : r1.deps = r2.deps) (hr : r1.rspfile = r2.rspfile) (hrc : r1.rspfileContent = r2.rspfileContent)
    (hp : r1.pool = r2.pool) (ha : r1.always = r2.always) : r1.hash = r2.hash := by
  unfold NinjaRule.hash
  rw [hn, hc, hd, hg, hr, hrc, hp, ha]

/-- identical named rules and identical build deps: the same object path for every builder and app -/
theorem identical_statement_shares (st : Settings) (b1 a1 b2 a2 : Name) (rule1 rule2 : Rule)
    {nr1 nr2 : NinjaRule} {c1 c2 : Option (List String)} (out srcpath : String)
    (hs1 : rule1.shareable = true) (hs2 : rule2.shareable = true) (hnr : nr1 = nr2) (hc : c1 = c2) :
    objectPath st b1 a1 rule1 nr1 (depsHashOf c1) out srcpath =
      objectPath st b2 a2 rule2 nr2 (depsHashOf c2) out srcpath := by
  subst hnr; subst hc
  exact shareable_independent st b1 a1 b2 a2 rule1 rule2 nr1 _ out srcpath hs1 hs2

/-- the same from agreement on the hashed fields only (the `export` lists may differ) -/
theorem identical_fields_share (st : Settings) (b1 a1 b2 a2 : Name) (rule1 rule2 : Rule)
    {nr1 nr2 : NinjaRule} (c : Option (List String)) (out srcpath : String)
    (hs1 : rule1.shareable = true) (hs2 : rule2.shareable = true)
    (hn : nr1.name = nr2.name) (hc : nr1.command = nr2.command) (hd : nr1.description = nr2.description)
    (hg : nr1.deps = nr2.deps) (hr : nr1.rspfile = nr2.rspfile) (hrc : nr1.rspfileContent = nr2.rspfileContent)
    (hp : nr1.pool = nr2.pool) (ha : nr1.always = nr2.always) :
    objectPath st b1 a1 rule1 nr1 (depsHashOf c) out srcpath =
      objectPath st b2 a2 rule2 nr2 (depsHashOf c) out srcpath := by
  rw [shareable_shared_dir _ _ _ _ _ _ _ _ hs1, shareable_shared_dir _ _ _ _ _ _ _ _ hs2,
    hash_determined hn hc hd hg hr hrc hp ha]

/-! ### 9. equal shared object paths ⇔ equal combined hashes ⇔ equal rule text and build deps -/

theorem pathExtension_some_file {p e : String} (h : pathExtension p = some e) :
    (fileName p == ".." || fileName p == "") = false := by
  unfold pathExtension at h
  dsimp only at h
  split at h
  · cases h
  · rename_i hc
    simpa using hc

/-- replacing the extension of a path with a proper file name: a fixed prefix, then the new extension -/
theorem pathWithExtension_shape (p : String) (hf : (fileName p == ".." || fileName p == "") = false) :
    ∃ P, P ≠ "" ∧ ∀ x, x ≠ "" → pathWithExtension p x = P ++ x := by
  have hf' : (fileName p == "" || fileName p == "..") = false := by
    rw [Bool.or_comm]; exact hf
  by_cases hpre : (p.splitOn "/").dropLast = []
  · refine ⟨fileStem (fileName p) ++ ".", ?_, ?_⟩
    · intro h
      have := congrArg String.length h
      simp at this
    · intro x hx
      unfold pathWithExtension
      dsimp only
      unfold fileName at hf'
      rw [hf', hpre]
      have : (x == "") = false := by simpa using hx
      rw [this]
      simp [fileName]
  · refine ⟨"/".intercalate (p.splitOn "/").dropLast ++ "/" ++ fileStem (fileName p) ++ ".", ?_, ?_⟩
    · intro h
      have := congrArg String.length h
      simp at this
    · intro x hx
      unfold pathWithExtension
      dsimp only
      unfold fileName at hf'
      rw [hf']
      have : (x == "") = false := by simpa using hx
      rw [this]
      simp only [Bool.false_eq_true, if_false]
      rw [String.intercalate_append_of_ne_nil hpre (by simp)]
      simp [fileName, String.append_assoc]

theorem startsWith_slash_append (P x : String) (hP : P ≠ "") : (P ++ x).startsWith "/" = P.startsWith "/" := by
  rw [Bool.eq_iff_iff, String.startsWith_string_iff, String.startsWith_string_iff, String.toList_append]
  have hne : P.toList ≠ [] := by
    intro h
    apply hP
    rw [← String.toList_inj]; simpa using h
  cases hl : P.toList with
  | nil => exact absurd hl hne
  | cons c r =>
    have : "/".toList = ['/'] := by decide
    rw [this, List.cons_append, List.cons_prefix_cons, List.cons_prefix_cons]
    simp

/-- `pathPush` is injective in its second argument among arguments of the same kind -/
theorem pathPush_inj (a x y : String) (hxy : x.startsWith "/" = y.startsWith "/")
    (h : pathPush a x = pathPush a y) : x = y := by
  unfold pathPush at h
  rw [hxy] at h
  split at h
  · exact h
  · split at h
    · exact h
    · split at h
      · exact (String.append_right_inj a).1 h
      · exact (String.append_right_inj _).1 h

theorem objectExt_ne_empty (H out : String) : H ++ "." ++ out ≠ "" := by
  intro h
  have := congrArg String.length h
  simp at this

/-- for a source path with an extension (which `compileStmts` demands), the shared object path
    determines the combined hash -/
theorem shared_object_path_iff (st : Settings) (b1 a1 b2 a2 : Name) (rule1 rule2 : Rule) (nr1 nr2 : NinjaRule)
    (h1 h2 : Option String) (out srcpath ext : String)
    (hs1 : rule1.shareable = true) (hs2 : rule2.shareable = true) (hext : pathExtension srcpath = some ext) :
    objectPath st b1 a1 rule1 nr1 h1 out srcpath = objectPath st b2 a2 rule2 nr2 h2 out srcpath ↔
      hashXor nr1.hash h1 = hashXor nr2.hash h2 := by
  rw [shareable_shared_dir _ _ _ _ _ _ _ _ hs1, shareable_shared_dir _ _ _ _ _ _ _ _ hs2]
  constructor
  · intro h
    obtain ⟨P, hP, hshape⟩ := pathWithExtension_shape srcpath (pathExtension_some_file hext)
    rw [hshape _ (objectExt_ne_empty _ _), hshape _ (objectExt_ne_empty _ _)] at h
    have h' := pathPush_inj _ _ _ (by rw [startsWith_slash_append _ _ hP, startsWith_slash_append _ _ hP]) h
    rw [String.append_right_inj, String.append_left_inj, String.append_left_inj] at h'
    exact h'
  · intro h
    rw [h]

/-- **C07**: two compilations of the same source by shareable rules use the same object path iff the
    (named) ninja rules agree on every hashed field — name (which itself carries the hash of the
    unnamed rule), command, description, dependency-file setting, response file, pool, `always` —
    and the combined order-only dependencies are identical as the statements print them (sorted): the order in
    which the modules exporting them were resolved does not matter (laze's `fix:` for the finding
    `deps_hash_order_matters_old` below). -/
theorem same_object_iff (ok : HashOK) (st : Settings) (b1 a1 b2 a2 : Name) (rule1 rule2 : Rule)
    (nr1 nr2 : NinjaRule) (c1 c2 : Option (List String)) (out srcpath ext : String)
    (hs1 : rule1.shareable = true) (hs2 : rule2.shareable = true) (hext : pathExtension srcpath = some ext) :
    objectPath st b1 a1 rule1 nr1 (depsHashOf c1) out srcpath =
        objectPath st b2 a2 rule2 nr2 (depsHashOf c2) out srcpath ↔
      (nr1.name = nr2.name ∧ nr1.command = nr2.command ∧ nr1.description = nr2.description ∧
       nr1.deps = nr2.deps ∧ nr1.rspfile = nr2.rspfile ∧ nr1.rspfileContent = nr2.rspfileContent ∧
       nr1.pool = nr2.pool ∧ nr1.always = nr2.always) ∧ c1.map pathSort = c2.map pathSort := by
  rw [shared_object_path_iff st b1 a1 b2 a2 rule1 rule2 nr1 nr2 _ _ out srcpath ext hs1 hs2 hext]
  constructor
  · intro hx
    obtain ⟨hh, hc⟩ := same_hash ok hx
    exact ⟨ok.rule nr1 nr2 hh, hc⟩
  · rintro ⟨⟨hn, hc, hd, hg, hr, hrc, hp, ha⟩, hcs⟩
    rw [hash_determined hn hc hd hg hr hrc hp ha, depsHashOf_congr hcs]

/-- and in that case the rule block, the compile statement and the extra statements coincide -/
theorem same_object_single_statement (ok : HashOK) (st : Settings) (b1 a1 b2 a2 : Name) (rule1 rule2 : Rule)
    (nr1 nr2 : NinjaRule) (c1 c2 : Option (List String)) (out srcpath ext : String)
    (localDeps : Option (List String)) (srcTag : Option String)
    (hs1 : rule1.shareable = true) (hs2 : rule2.shareable = true) (hext : pathExtension srcpath = some ext)
    (hobj : objectPath st b1 a1 rule1 nr1 (depsHashOf c1) out srcpath =
        objectPath st b2 a2 rule2 nr2 (depsHashOf c2) out srcpath) :
    nr1.render = nr2.render ∧
    compileOut nr1 c1 localDeps srcTag srcpath (objectPath st b1 a1 rule1 nr1 (depsHashOf c1) out srcpath) =
      compileOut nr2 c2 localDeps srcTag srcpath (objectPath st b2 a2 rule2 nr2 (depsHashOf c2) out srcpath) := by
  have hx := (shared_object_path_iff st b1 a1 b2 a2 rule1 rule2 nr1 nr2 _ _ out srcpath ext hs1 hs2 hext).1 hobj
  obtain ⟨h1, _, _, h4⟩ := same_object_same_statement ok hx localDeps srcTag srcpath
    (objectPath st b1 a1 rule1 nr1 (depsHashOf c1) out srcpath)
  refine ⟨h1, ?_⟩
  rw [h4, hobj]

/-! ### 10. the symbolic hashes satisfy `HashOK` -/

theorem split_at_sep {c : Char} : ∀ {d d' r r' : List Char}, c ∉ d → c ∉ d' →
    d ++ c :: r = d' ++ c :: r' → d = d' ∧ r = r'
  | [], [], _, _, _, _, h => by simpa using h
  | [], x :: d', _, _, _, h2, h => by
    simp only [List.nil_append, List.cons_append, List.cons.injEq] at h
    exact absurd (h.1 ▸ List.mem_cons_self) h2
  | x :: d, [], _, _, h1, _, h => by
    simp only [List.nil_append, List.cons_append, List.cons.injEq] at h
    exact absurd (h.1 ▸ List.mem_cons_self) h1
  | x :: d, y :: d', _, _, h1, h2, h => by
    simp only [List.cons_append, List.cons.injEq] at h
    obtain ⟨rfl, h⟩ := h
    obtain ⟨rfl, hr⟩ := split_at_sep (fun hm => h1 (List.mem_cons_of_mem _ hm))
      (fun hm => h2 (List.mem_cons_of_mem _ hm)) h
    exact ⟨rfl, hr⟩

theorem hash_notin_digits (n : Nat) : '#' ∉ Nat.toDigits 10 n := by
  intro h
  have := Nat.isDigit_of_mem_toDigits (by decide) (by decide) h
  exact absurd this (by decide)

theorem toDigits_inj {n m : Nat} (h : Nat.toDigits 10 n = Nat.toDigits 10 m) : n = m := by
  have := congrArg (fun l => Nat.ofDigitChars 10 l 0) h
  simpa using this

theorem enc_toList (s : String) : (enc s).toList = Nat.toDigits 10 s.length ++ '#' :: s.toList := by
  unfold enc
  simp

/-- the length-prefixed encoding is self-delimiting -/
theorem enc_append_inj {s s' t t' : String} (h : enc s ++ t = enc s' ++ t') : s = s' ∧ t = t' := by
  have h' := congrArg String.toList h
  rw [String.toList_append, String.toList_append, enc_toList, enc_toList, List.append_assoc, List.append_assoc,
    List.cons_append, List.cons_append] at h'
  obtain ⟨hd, hr⟩ := split_at_sep (hash_notin_digits _) (hash_notin_digits _) h'
  have hl : s.toList.length = s'.toList.length := by
    rw [String.length_toList, String.length_toList]; exact toDigits_inj hd
  obtain ⟨h1, h2⟩ := List.append_inj hr hl
  exact ⟨String.toList_inj.1 h1, String.toList_inj.1 h2⟩

theorem optS_append_inj {o o' : Option String} {t t' : String} (h : optS o ++ t = optS o' ++ t') :
    o = o' ∧ t = t' := by
  cases o with
  | none =>
    cases o' with
    | none => exact ⟨rfl, (String.append_right_inj _).1 h⟩
    | some s' =>
      have := congrArg String.toList h
      simp [optS, String.append_assoc] at this
  | some s =>
    cases o' with
    | none =>
      have := congrArg String.toList h
      simp [optS, String.append_assoc] at this
    | some s' =>
      unfold optS at h
      rw [String.append_assoc, String.append_assoc, String.append_right_inj] at h
      obtain ⟨rfl, ht⟩ := enc_append_inj h
      exact ⟨rfl, ht⟩

/-- a rule hash is self-delimiting, and determines every hashed field -/
theorem rule_hash_append_inj {r1 r2 : NinjaRule} {T T' : String} (h : r1.hash ++ T = r2.hash ++ T') :
    (r1.name = r2.name ∧ r1.command = r2.command ∧ r1.description = r2.description ∧ r1.deps = r2.deps ∧
     r1.rspfile = r2.rspfile ∧ r1.rspfileContent = r2.rspfileContent ∧ r1.pool = r2.pool ∧
     r1.always = r2.always) ∧ T = T' := by
  unfold NinjaRule.hash hashTok at h
  simp only [String.append_assoc] at h
  rw [String.append_right_inj, String.append_right_inj, String.append_right_inj] at h
  obtain ⟨hn, h⟩ := enc_append_inj h
  rw [String.append_right_inj] at h
  obtain ⟨hc, h⟩ := enc_append_inj h
  rw [String.append_right_inj] at h
  obtain ⟨hd, h⟩ := optS_append_inj h
  rw [String.append_right_inj] at h
  obtain ⟨hg, h⟩ := optS_append_inj h
  rw [String.append_right_inj] at h
  obtain ⟨hp, h⟩ := optS_append_inj h
  rw [String.append_right_inj] at h
  obtain ⟨hr, h⟩ := optS_append_inj h
  rw [String.append_right_inj] at h
  obtain ⟨hrc, h⟩ := optS_append_inj h
  cases ha1 : r1.always <;> cases ha2 : r2.always <;> rw [ha1, ha2] at h
  · simp only [Bool.false_eq_true, if_false, String.empty_append, String.append_right_inj] at h
    exact ⟨⟨hn, hc, hd, hg, hr, hrc, hp, rfl⟩, h⟩
  · have := congrArg String.toList h
    simp at this
  · have := congrArg String.toList h
    simp at this
  · simp only [if_true, String.append_right_inj] at h
    exact ⟨⟨hn, hc, hd, hg, hr, hrc, hp, rfl⟩, h⟩

/-- **`HashInj` holds for the symbolic rule hash** -/
theorem hashInj : HashInj := by
  intro r1 r2 h
  have h' : r1.hash ++ "" = r2.hash ++ "" := by rw [h]
  exact (rule_hash_append_inj h').1

theorem joinEnc_inj : ∀ {l l' : List String},
    String.join (l.map (fun p => enc p ++ ";")) = String.join (l'.map (fun p => enc p ++ ";")) → l = l'
  | [], [], _ => rfl
  | [], p :: l', h => by
    have := congrArg String.length h
    have h1 : "#".length = 1 := by decide
    simp [enc, h1] at this <;> omega
  | p :: l, [], h => by
    have := congrArg String.length h
    have h1 : "#".length = 1 := by decide
    simp [enc, h1] at this <;> omega
  | p :: l, p' :: l', h => by
    simp only [List.map_cons, String.join_cons, String.append_assoc] at h
    obtain ⟨hp, ht⟩ := enc_append_inj h
    subst hp
    have h2 := (String.append_right_inj _).1 ht
    rw [joinEnc_inj h2]

theorem hashPaths_inj {kind : String} {l l' : List String} (h : hashPaths kind l = hashPaths kind l') : l = l' := by
  unfold hashPaths hashTok at h
  rw [String.append_left_inj, String.append_right_inj] at h
  exact joinEnc_inj h

theorem hashXor_rule_inj {r r' : NinjaRule} {b b' : String}
    (h : hashXor r.hash (some b) = hashXor r'.hash (some b')) : r.hash = r'.hash ∧ b = b' := by
  unfold hashXor hashTok at h
  simp only [String.append_assoc] at h
  rw [String.append_right_inj, String.append_right_inj, String.append_right_inj] at h
  obtain ⟨⟨hn, hc, hd, hg, hr, hrc, hp, ha⟩, h⟩ := rule_hash_append_inj h
  rw [String.append_right_inj, String.append_left_inj] at h
  exact ⟨hash_determined hn hc hd hg hr hrc hp ha, h⟩

/-- **the no-collision assumptions hold for the symbolic hashes of the model** -/
theorem hashOK : HashOK where
  rule := hashInj
  paths := fun _ _ h => hashPaths_inj h
  xor := fun _ _ _ _ h => hashXor_rule_inj h


/-! ### 11. non-shareable objects are private to builder and app -/

theorem endsWith_iff_suffix (s pat : String) : s.endsWith pat ↔ pat.toList <:+ s.toList := by
  simp [← String.endsWith_toSlice]

/-- a simple name: non-empty, without `/` -/
def SimpleName (n : String) : Prop := n ≠ "" ∧ '/' ∉ n.toList

theorem SimpleName.rel {n : String} (h : SimpleName n) : n.startsWith "/" = false := by
  rw [String.startsWith_string_eq_false_iff]
  intro hp
  have : "/".toList = ['/'] := by decide
  rw [this] at hp
  exact h.2 (hp.subset (by simp))

/-- the separator `pathPush` inserts after `a` -/
def sepOf (a : String) : String := if a == "" then "" else if a.endsWith "/" then "" else "/"

theorem pathPush_sepOf (a b : String) (hb : b.startsWith "/" = false) : pathPush a b = a ++ sepOf a ++ b := by
  unfold pathPush sepOf
  rw [hb]
  simp only [Bool.false_eq_true, if_false]
  split
  · rename_i h
    have : a = "" := by simpa using h
    subst this; simp
  · split <;> simp

theorem sepOf_append_simple (x n : String) (h : SimpleName n) : sepOf (x ++ n) = "/" := by
  unfold sepOf
  have h1 : (x ++ n == "") = false := by
    rw [beq_eq_false_iff_ne]
    intro he
    have := congrArg String.toList he
    simp at this
    exact h.1 this.2
  have h2 : (x ++ n).endsWith "/" = false := by
    rw [Bool.eq_false_iff]
    intro he
    rw [endsWith_iff_suffix, String.toList_append] at he
    have hl : "/".toList = ['/'] := by decide
    rw [hl] at he
    have hne : n.toList ≠ [] := by
      intro h0; apply h.1; rw [← String.toList_inj]; simpa using h0
    have hlast := he.getLast (by simp)
    rw [List.getLast_append_of_ne_nil _ hne] at hlast
    simp only [List.getLast_singleton] at hlast
    exact h.2 (hlast ▸ List.getLast_mem hne)
  rw [h1, h2]
  simp

/-- string version of `split_at_sep` -/
theorem split_at_slash {n n' r r' : String} (h1 : '/' ∉ n.toList) (h2 : '/' ∉ n'.toList)
    (h : n ++ "/" ++ r = n' ++ "/" ++ r') : n = n' ∧ r = r' := by
  have h' := congrArg String.toList h
  have hl : "/".toList = ['/'] := by decide
  simp only [String.toList_append, hl, List.append_assoc, List.singleton_append] at h'
  obtain ⟨ha, hb⟩ := split_at_sep h1 h2 h'
  exact ⟨String.toList_inj.1 ha, String.toList_inj.1 hb⟩

/-- the private object path, spelled out -/
theorem nonshareable_path (st : Settings) (builder app : Name) (rule : Rule) (nr : NinjaRule) (h : Option String)
    (out srcpath : String) (hs : rule.shareable = false) (hb : SimpleName builder) (ha : SimpleName app)
    (hrel : (pathWithExtension srcpath out).startsWith "/" = false) :
    objectPath st builder app rule nr h out srcpath =
      pathPush st.buildDir "objects" ++ sepOf (pathPush st.buildDir "objects") ++ builder ++ "/" ++ app ++ "/" ++
        pathWithExtension srcpath out := by
  rw [nonshareable_private _ _ _ _ _ _ _ _ hs]
  rw [pathPush_sepOf _ _ hrel, pathPush_sepOf _ app ha.rel, pathPush_sepOf _ builder hb.rel]
  rw [sepOf_append_simple _ app ha, sepOf_append_simple _ builder hb]

/-- **privacy**: for simple builder and app names and relative sources, the object path of a
    non-shareable rule determines builder, app and the object's relative name -/
theorem nonshareable_private_inj (st : Settings) (b1 a1 b2 a2 : Name) (rule1 rule2 : Rule) (nr1 nr2 : NinjaRule)
    (h1 h2 : Option String) (out1 out2 src1 src2 : String)
    (hs1 : rule1.shareable = false) (hs2 : rule2.shareable = false)
    (hb1 : SimpleName b1) (ha1 : SimpleName a1) (hb2 : SimpleName b2) (ha2 : SimpleName a2)
    (hrel1 : (pathWithExtension src1 out1).startsWith "/" = false)
    (hrel2 : (pathWithExtension src2 out2).startsWith "/" = false)
    (heq : objectPath st b1 a1 rule1 nr1 h1 out1 src1 = objectPath st b2 a2 rule2 nr2 h2 out2 src2) :
    b1 = b2 ∧ a1 = a2 ∧ pathWithExtension src1 out1 = pathWithExtension src2 out2 := by
  rw [nonshareable_path st b1 a1 rule1 nr1 h1 out1 src1 hs1 hb1 ha1 hrel1,
    nonshareable_path st b2 a2 rule2 nr2 h2 out2 src2 hs2 hb2 ha2 hrel2] at heq
  simp only [String.append_assoc, String.append_right_inj] at heq
  rw [← String.append_assoc, ← String.append_assoc (s₁ := b2)] at heq
  obtain ⟨hb, heq⟩ := split_at_slash hb1.2 hb2.2 heq
  rw [← String.append_assoc, ← String.append_assoc (s₁ := a2)] at heq
  obtain ⟨ha, heq⟩ := split_at_slash ha1.2 ha2.2 heq
  exact ⟨hb, ha, heq⟩

example : SimpleName "native" := ⟨by decide, by decide⟩

/-! ### unconditional forms (for the model's symbolic hashes) -/

/-- rule blocks are functional in their hashed name (given the base name) -/
theorem rule_names_functional_model {r1 r2 : NinjaRule}
    (hnamed : r1.named.name = r2.named.name) (hbase : r1.name = r2.name) :
    r1.named.render = r2.named.render :=
  rule_names_functional hashInj hnamed hbase

theorem same_object_iff_model (st : Settings) (b1 a1 b2 a2 : Name) (rule1 rule2 : Rule)
    (nr1 nr2 : NinjaRule) (c1 c2 : Option (List String)) (out srcpath ext : String)
    (hs1 : rule1.shareable = true) (hs2 : rule2.shareable = true) (hext : pathExtension srcpath = some ext) :
    objectPath st b1 a1 rule1 nr1 (depsHashOf c1) out srcpath =
        objectPath st b2 a2 rule2 nr2 (depsHashOf c2) out srcpath ↔
      (nr1.name = nr2.name ∧ nr1.command = nr2.command ∧ nr1.description = nr2.description ∧
       nr1.deps = nr2.deps ∧ nr1.rspfile = nr2.rspfile ∧ nr1.rspfileContent = nr2.rspfileContent ∧
       nr1.pool = nr2.pool ∧ nr1.always = nr2.always) ∧ c1.map pathSort = c2.map pathSort :=
  same_object_iff hashOK st b1 a1 b2 a2 rule1 rule2 nr1 nr2 c1 c2 out srcpath ext hs1 hs2 hext

/-! #### concrete data -/
section Examples
private def cc : Rule := { name := "CC", cmd := "gcc -c ${in} -o ${out}", out := some "o" }
private def ccN : Rule := { cc with shareable := false }
private def nrA : NinjaRule := mkNinjaRule cc "" "gcc -O2 -c ${in} -o ${out}" none
private def nrB : NinjaRule := mkNinjaRule cc "" "gcc -O0 -c ${in} -o ${out}" none

-- the hypotheses of `same_object_iff` are satisfiable, both sides true:
#guard pathExtension "src/hello.c" == some "c"
#guard objectPath {} "b1" "app1" cc nrA (depsHashOf (some ["x.h"])) "o" "src/hello.c"
    == objectPath {} "b2" "app2" cc nrA (depsHashOf (some ["x.h"])) "o" "src/hello.c"
-- … and both sides false: another command, or other build deps
#guard objectPath {} "b1" "app1" cc nrA (depsHashOf none) "o" "src/hello.c"
    != objectPath {} "b1" "app1" cc nrB (depsHashOf none) "o" "src/hello.c"
#guard objectPath {} "b1" "app1" cc nrA (depsHashOf (some ["x.h"])) "o" "src/hello.c"
    != objectPath {} "b1" "app1" cc nrA (depsHashOf (some ["y.h"])) "o" "src/hello.c"
-- `hext` is needed: without a proper file name `with_extension` changes nothing and every hash
-- gives the same path (`compileStmts` rejects such sources)
#guard objectPath {} "b1" "app1" cc nrA (depsHashOf none) "o" "src/.." == objectPath {} "b1" "app1" cc nrB (depsHashOf none) "o" "src/.."
-- non-shareable: private to builder and app for relative sources …
#guard objectPath {} "b1" "app1" ccN nrA none "o" "src/hello.c" == "build/objects/b1/app1/src/hello.o"
-- … but NOT for an absolute source path (COUNTEREXAMPLE to unconditional privacy): two builders with
-- different commands produce the same output path
#guard objectPath {} "b1" "app1" ccN nrA none "o" "/abs/hello.c" == objectPath {} "b2" "app2" ccN nrB none "o" "/abs/hello.c"
#guard (buildFromRule nrA (some ["/abs/hello.c"]) ["/abs/hello.o"] none).render
    != (buildFromRule nrB (some ["/abs/hello.c"]) ["/abs/hello.o"] none).render
-- … nor when names contain `/`
#guard objectPath {} "a/b" "c" ccN nrA none "o" "src/hello.c" == objectPath {} "a" "b/c" ccN nrA none "o" "src/hello.c"
-- … e.g. app `x` compiling `y/z.c` and app `x/y` compiling `z.c`
#guard objectPath {} "b" "x" ccN nrA none "o" "y/z.c" == objectPath {} "b" "x/y" ccN nrA none "o" "z.c"
-- hypotheses of `nonshareable_private_inj` on concrete data
#guard (pathWithExtension "src/hello.c" "o").startsWith "/" == false

/-- FINDING (repaired in /repo by a `fix:` commit; the model follows the repaired code): the hash used to be taken over
    the build-dep files in the order the exporting modules were resolved, while the statement prints them sorted. Two apps
    selecting two global build deps in opposite orders then compiled the same source with identical statements into two
    object paths. `hashPaths` distinguishes the two orders … -/
theorem deps_hash_order_matters_old : hashPaths "deps" ["gg1.h", "gg2.h"] ≠ hashPaths "deps" ["gg2.h", "gg1.h"] := by
  intro h
  have := hashOK.paths _ _ h
  simp at this

/-- … while the statements are the same (tested by evaluation), and `depsHashOf` (sorted) no longer distinguishes them -/
theorem deps_hash_order_irrelevant (l1 l2 : List String) (h : pathSort l1 = pathSort l2) :
    depsHashOf (some l1) = depsHashOf (some l2) := by
  simp [depsHashOf, h]
#guard pathSort ["gg1.h", "gg2.h"] == pathSort ["gg2.h", "gg1.h"]
#guard depsHashOf (some ["gg1.h", "gg2.h"]) == depsHashOf (some ["gg2.h", "gg1.h"])
end Examples

end Laze.C07
