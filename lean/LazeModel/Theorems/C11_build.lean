import LazeModel.Theorems.C11
import LazeModel.Theorems.GenBasic
/-! C11 at project level: `configureBuild` configures an app for a builder only if the allow/block decision admits the builder
    **and** the app's context is the builder or one of its ancestors; it reports `blocked` exactly when the decision refuses and
    `not-ancestor` exactly when the decision admits but the context is not on the builder's chain. The resolution and everything after
    it can only produce `unresolved`, `dep-cycle`, a build, or an error — never one of the two eligibility verdicts. -/
namespace Laze.C11
open Laze

/-- everything after a successful resolution ends in a build, a dropped build-dependency cycle, or an error -/
theorem configureOrdered_outcome {ev st b builder app r rules opts gflat outfile menvs o}
    (h : configureOrdered ev st b builder app r rules opts gflat outfile menvs = .ok o) :
    o = .noBuild .depCycle ∨ ∃ i, o = .build i := by
  unfold configureOrdered at h
  split at h
  · cases h; exact .inl rfl
  · split at h
    · cases h
    · split at h
      · cases h
      · cases h; exact .inr ⟨_, rfl⟩

theorem configureResolved_outcome {ev st b builder app cli rs o}
    (h : configureResolved ev st b builder app cli rs = .ok o) :
    o = .noBuild .depCycle ∨ ∃ i, o = .build i := by
  unfold configureResolved configureSelection at h
  split at h
  · cases h
  · unfold configureWithEnv at h
    split at h
    · cases h
    · split at h
      · cases h
      · exact configureOrdered_outcome h

/-- the app's context is the builder or one of its ancestors -/
def Eligible (b : Bag) (builder : Name) (app : Module) : Prop := app.contextName ∈ b.chain builder

/-- **C11 (ancestor)**: a configured build — and equally one that was attempted and dropped as unresolvable or cyclic — exists only
    for a builder the allow/block decision admits and whose chain contains the app's context -/
theorem configured_only_if_eligible {ev st b builder app cli o}
    (h : configureBuild ev st b builder app cli = .ok o)
    (ho : o ≠ .noBuild .blocked) (ho' : o ≠ .noBuild .notAncestor) :
    (b.tree.isAllowed builder app.blocklist app.allowlist).ok = true ∧ Eligible b builder app := by
  unfold configureBuild at h
  split at h
  · cases h; exact absurd rfl ho
  · rename_i hal
    split at h
    · cases h; exact absurd rfl ho'
    · rename_i hanc
      refine ⟨by simpa using hal, ?_⟩
      unfold Eligible
      simpa using hanc

theorem built_only_if_eligible {ev st b builder app cli i}
    (h : configureBuild ev st b builder app cli = .ok (.build i)) :
    (b.tree.isAllowed builder app.blocklist app.allowlist).ok = true ∧ Eligible b builder app :=
  configured_only_if_eligible h (by simp) (by simp)

/-- **C11 (blocked)**: `blocked` is reported exactly when the allow/block decision refuses the builder -/
theorem blocked_iff {ev st b builder app cli} :
    configureBuild ev st b builder app cli = .ok (.noBuild .blocked) ↔
      (b.tree.isAllowed builder app.blocklist app.allowlist).ok = false := by
  constructor
  · intro h
    unfold configureBuild at h
    split at h
    · rename_i hal; simpa using hal
    · split at h
      · cases h
      · split at h
        · cases h
        · rcases configureResolved_outcome h with h' | ⟨i, h'⟩ <;> cases h'
  · intro h
    unfold configureBuild
    simp [h]

/-- **C11 (not an ancestor)**: `not-ancestor` is reported exactly when the decision admits the builder but the app's context is
    neither the builder nor one of its ancestors -/
theorem notAncestor_iff {ev st b builder app cli} :
    configureBuild ev st b builder app cli = .ok (.noBuild .notAncestor) ↔
      (b.tree.isAllowed builder app.blocklist app.allowlist).ok = true ∧ ¬ Eligible b builder app := by
  constructor
  · intro h
    unfold configureBuild at h
    split at h
    · cases h
    · rename_i hal
      split at h
      · rename_i hanc
        refine ⟨by simpa using hal, ?_⟩
        unfold Eligible
        simpa using hanc
      · split at h
        · cases h
        · rcases configureResolved_outcome h with h' | ⟨i, h'⟩ <;> cases h'
  · rintro ⟨hal, hne⟩
    unfold configureBuild
    unfold Eligible at hne
    have hc : (b.chain builder).contains app.contextName = false := by simpa using hne
    rw [if_neg (by simp [hal]), if_pos (by simpa using hne)]

/-- the eligibility verdicts do not depend on the command line, the environment, the expression evaluator or anything else a build
    is made of: two apps with the same context and lists get the same verdict for a builder -/
theorem eligibility_depends_on_lists_and_context {ev ev' st st' b builder app app' cli cli'}
    (hc : app.contextName = app'.contextName) (hb : app.blocklist = app'.blocklist) (ha : app.allowlist = app'.allowlist)
    (r : NoBuild) (hr : r = .blocked ∨ r = .notAncestor) :
    configureBuild ev st b builder app cli = .ok (.noBuild r) ↔ configureBuild ev' st' b builder app' cli' = .ok (.noBuild r) := by
  rcases hr with rfl | rfl
  · rw [blocked_iff, blocked_iff, hb, ha]
  · rw [notAncestor_iff, notAncestor_iff, hb, ha]; unfold Eligible; rw [hc]

/-! non-vacuity: a two-family tree; an app of `fam_b` is not eligible for `board_a`, an app of `default` is -/
private def t2 : Bag := { contexts := [
  { name := "default", parent := none }, { name := "fam_a", parent := some "default" }, { name := "fam_b", parent := some "default" },
  { name := "board_a", parent := some "fam_a", isBuilder := true } ] }
example : Eligible t2 "board_a" { name := "fw", contextName := "default" } := by unfold Eligible; decide
example : Eligible t2 "board_a" { name := "fw", contextName := "fam_a" } := by unfold Eligible; decide
example : ¬ Eligible t2 "board_a" { name := "fw", contextName := "fam_b" } := by unfold Eligible; decide

end Laze.C11
