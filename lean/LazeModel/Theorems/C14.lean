import LazeModel.Model.Env
/-! C14 — var_options render list variables without stray separators. -/
namespace Laze.C14
open Laze

/-- the rendered elements: every non-empty element wrapped in prefix/suffix -/
def rendered (pre suf : String) (l : List String) : List String :=
  (l.filter (fun s => !s.isEmpty)).map (fun s => pre ++ s ++ suf)

theorem loop_false (j pre suf : String) (l : List String) (res : String) :
    flattenLoop j pre suf l res false =
      res ++ String.join ((rendered pre suf l).map (fun x => j ++ x)) := by
  induction l generalizing res with
  | nil => simp [flattenLoop, rendered]
  | cons s rest ih =>
    unfold flattenLoop
    by_cases h : s.isEmpty
    · simp [h, rendered] at *; exact ih res
    · simp [h, rendered] at *
      rw [ih]; simp [String.append_assoc]

theorem joinSep_cons (j x : String) (r : List String) :
    joinSep j (x :: r) = x ++ String.join (r.map (fun y => j ++ y)) := by
  induction r generalizing x with
  | nil => simp [joinSep]
  | cons y r ih => simp [joinSep, ih, String.append_assoc]

theorem loop_true (j pre suf : String) (l : List String) (res : String) :
    flattenLoop j pre suf l res true = res ++ joinSep j (rendered pre suf l) := by
  induction l generalizing res with
  | nil => simp [flattenLoop, rendered, joinSep]
  | cons s rest ih =>
    unfold flattenLoop
    by_cases h : s.isEmpty
    · simp [h, rendered] at *; exact ih res
    · simp [h, rendered] at *
      rw [loop_false, joinSep_cons]; simp [rendered, String.append_assoc]

/-- The statement of C14 for list values: start, then prefix+value+suffix for every non-empty
    element separated by the joiner (default one space), then end. `joinSep` puts the joiner
    *between* elements only, so there is no leading, trailing or doubled joiner. -/
theorem flatten_opts_spec (l : List String) (o : MergeOption) :
    (EnvKey.list l).flattenWithOpts o =
      optStr o.start ++ joinSep (o.joiner.getD " ") (rendered (optStr o.prefix) (optStr o.suffix) l)
        ++ optStr o.end := by
  simp [EnvKey.flattenWithOpts, loop_true]

/-- an empty list (or one with only empty elements) yields start ++ end -/
theorem empty_list (o : MergeOption) (l : List String) (h : ∀ s ∈ l, s.isEmpty = true) :
    (EnvKey.list l).flattenWithOpts o = optStr o.start ++ optStr o.end := by
  rw [flatten_opts_spec]
  have : rendered (optStr o.prefix) (optStr o.suffix) l = [] := by
    simp only [rendered, List.map_eq_nil_iff, List.filter_eq_nil_iff]
    intro s hs; simp [h s hs]
  rw [this]; simp [joinSep]

theorem single_spec (s : String) (o : MergeOption) :
    (EnvKey.single s).flattenWithOpts o =
      optStr o.start ++ optStr o.prefix ++ s ++ optStr o.suffix ++ optStr o.end := by
  simp [EnvKey.flattenWithOpts]

/-- empty elements are invisible wherever they stand -/
theorem empty_elements_invisible (l : List String) (o : MergeOption) :
    (EnvKey.list l).flattenWithOpts o = (EnvKey.list (l.filter (fun s => !s.isEmpty))).flattenWithOpts o := by
  rw [flatten_opts_spec, flatten_opts_spec]; simp [rendered]

/-- the joiner never appears at the end: appending an empty element changes nothing -/
theorem no_trailing_joiner (l : List String) (o : MergeOption) :
    (EnvKey.list (l ++ [""])).flattenWithOpts o = (EnvKey.list l).flattenWithOpts o := by
  rw [flatten_opts_spec, flatten_opts_spec]; simp [rendered]

theorem flatEntry_other (k : String) (o : MergeOption) (kv : String × EnvKey) (h : (kv.1 == k) = false) :
    flatEntry [(k, o)] kv = (kv.1, kv.2.flatten) := by
  have : (k == kv.1) = false := by
    cases hh : (k == kv.1) with
    | false => rfl
    | true => rw [eq_of_beq hh] at h; simp at h
  simp [flatEntry, VarOpts.get, List.find?, this]

theorem flatEntry_fst (opts : VarOpts) (kv : String × EnvKey) : (flatEntry opts kv).1 = kv.1 := by
  unfold flatEntry; split <;> rfl

/-- `from:` takes the elements of the named variable, rendered with the options of the target -/
theorem from_spec (e : Env) (k v : String) (o : MergeOption) (val : EnvKey)
    (hfrom : o.from = some v) (hv : e.get v = some val) (hk : e.has k = false) :
    e.flattenWithOpts [(k, o)] = .ok (e.flatten ++ [(k, val.flattenWithOpts o)]) := by
  have hne : ∀ kv ∈ e, (kv.1 == k) = false := by
    intro kv hkv
    cases hh : (kv.1 == k) with
    | false => rfl
    | true =>
      have : e.has k = true := by
        simp only [Env.has, List.any_eq_true]; exact ⟨kv, hkv, hh⟩
      rw [hk] at this; cases this
  have hmap : e.map (flatEntry [(k, o)]) = e.flatten := by
    unfold Env.flatten
    apply List.map_congr_left
    intro kv hkv
    exact flatEntry_other k o kv (hne kv hkv)
  have hany : (e.flatten).any (fun p => p.1 == k) = false := by
    simp only [Env.flatten, List.any_map, List.any_eq_false]
    intro kv hkv
    simp [Function.comp_def, hne kv hkv]
  unfold Env.flattenWithOpts
  rw [hmap]
  simp [fromLoop, hfrom, hv, hany]

/-- a variable with both values and `from:` is rejected -/
theorem both_values_and_from_error (e : Env) (k v : String) (o : MergeOption) (val : EnvKey)
    (hfrom : o.from = some v) (hv : e.get v = some val) (hk : e.has k = true) :
    e.flattenWithOpts [(k, o)] = .error .bothValuesAndFrom := by
  have hany : (e.map (flatEntry [(k, o)])).any (fun p => p.1 == k) = true := by
    simp only [Env.has, List.any_eq_true] at hk
    obtain ⟨ab, hab, hka⟩ := hk
    simp only [List.any_map, List.any_eq_true]
    exact ⟨ab, hab, by simpa [Function.comp_def, flatEntry_fst] using hka⟩
  unfold Env.flattenWithOpts
  simp [fromLoop, hfrom, hv, hany]

/-- a `from:` naming a variable that does not exist is rejected -/
theorem from_missing_error (e : Env) (k v : String) (o : MergeOption)
    (hfrom : o.from = some v) (hv : e.get v = none) :
    e.flattenWithOpts [(k, o)] = .error .fromMissing := by
  unfold Env.flattenWithOpts
  simp [fromLoop, hfrom, hv]

-- non-vacuity: the statement on a concrete list with empty elements in every position
example : (EnvKey.list ["", "a", "", "b", ""]).flattenWithOpts
    { joiner := some ",", «prefix» := some "-D", start := some "[", «end» := some "]" } = "[-Da,-Db]" := by
  decide
example : (EnvKey.list []).flattenWithOpts { joiner := some ",", start := some "[", «end» := some "]" } = "[]" := by
  decide

end Laze.C14
