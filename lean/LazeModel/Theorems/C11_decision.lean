import LazeModel.Model.Ctx
import LazeModel.Generated.Decisions
/-! # C11 — the allow/block decision, regenerated from the source

`translators/decisions.py` re-reads `ContextBag::is_allowed` on every run and writes its if/else tree as data. Here the tree is
*evaluated* on an arbitrary pair of list lookups, and `is_allowed_tree_is_model` proves that for EVERY pair the result is the model's
`isAllowedCore` — the function `C11.allow_block_spec`, `order_independent`, `blocked_iff` … are stated about. A change of the Rust
function (a swapped comparison, a dropped branch, a new special case) changes the tree: it either no longer evaluates (`unknown`) or
no longer equals `isAllowedCore`, and this file stops checking. -/
namespace Laze.C11d
open Laze Laze.Generated

/-- what the tree reads: for each list, `none` = the list is absent, `some none` = given but no listed ancestor (`IsAncestor::No`),
    `some (some (name, depth))` = the nearest listed ancestor -/
abbrev Lookup := Option (Option (Name × Nat))

/-- `…_entry` is `IsAncestor::No` both when the list is absent and when nothing on it is an ancestor (`map_or(IsAncestor::No, …)`) -/
def entry (l : Lookup) : Option (Name × Nat) := l.join

def condHolds (a b : Lookup) : ACond → Option Bool
  | .allowSome => some a.isSome
  | .blockSome => some b.isSome
  | .allowYes => some (entry a).isSome
  | .blockYes => some (entry b).isSome
  | .allowNo => some (entry a).isNone
  | .blockNo => some (entry b).isNone
  | .allowDeeper => match entry a, entry b with
    | some (_, ad), some (_, bd) => some (decide (ad > bd))
    | _, _ => none                      -- the Rust variables are only bound inside both `if let … Yes`
  | .unknown _ => none

def retValue (a b : Lookup) : ARet → Option Verdict
  | .block => (entry b).map (fun (n, d) => Verdict.block n d)
  | .allow => (entry a).map (fun (n, d) => Verdict.allow n d)
  | .blocked => some .blocked
  | .allowed => some .allowed
  | .unknown _ => none

/-- result of running a tree: `none` = not interpretable, `some none` = fell through, `some (some v)` = returned `v` -/
def eval (a b : Lookup) : ATree → Option (Option Verdict)
  | .skip => some none
  | .ret r => (retValue a b r).map some
  | .ite c t e => match condHolds a b c with
    | none => none
    | some true => eval a b t
    | some false => eval a b e
  | .seq x y => match eval a b x with
    | none => none
    | some (some v) => some (some v)
    | some none => eval a b y

/-- **translator obligation**: for every pair of lookups, today's `is_allowed` returns what `isAllowedCore` returns -/
theorem is_allowed_tree_is_model (a b : Lookup) :
    isAllowedTree.bind (eval a b) = some (some (isAllowedCore a b)) := by
  rcases a with _ | _ | ⟨an, ad⟩ <;> rcases b with _ | _ | ⟨bn, bd⟩ <;>
    simp [isAllowedTree, eval, condHolds, retValue, entry, isAllowedCore, Option.join]
  by_cases h : bd < ad <;> simp [h]

/-- **translator obligation**: both entries are looked up with `is_ancestor_in_list` and are `No` when the list is absent -/
theorem is_allowed_lets_reviewed : isAllowedLets =
    ["let allowlist_entry = allowlist.as_ref().map_or(IsAncestor::No, |list| { self.is_ancestor_in_list(context, list) })",
     "let blocklist_entry = blocklist.as_ref().map_or(IsAncestor::No, |list| { self.is_ancestor_in_list(context, list) })"] := by
  decide +kernel

/-! non-vacuity: a tree with the comparison the other way round is not the model; unknown pieces are rejected -/
example : eval (some (some ("a", 2))) (some (some ("b", 1)))
    (.seq (.ite .allowDeeper (.ret .allow) (.ret .block)) .skip) ≠ some (some (isAllowedCore (some (some ("a", 2))) (some (some ("b", 1))))) := by
  decide
example : eval none none (.ite (.unknown "x") .skip .skip) = none := by decide

end Laze.C11d
