import LazeModel.Model.Expr
/-! C13 — variable and expression expansion is total and substitutes exactly. -/
namespace Laze.C13
open Laze

/-! ### text without `${` is returned unchanged -/

theorem scan_no_marker (f : Bytes) (h : findSub dollarBrace f = none) :
    scan f (f.length + 1) 0 [] false = .ok ([], false) := by
  unfold scan
  by_cases hl : 0 < f.length
  · simp [hl, h]
  · simp [hl]

theorem no_marker_identity (r : Vars) (pol : Policy) (f : Bytes)
    (h : findSub dollarBrace f = none) : expand r pol f = .ok f := by
  unfold expand expandRec expandStep
  rw [scan_no_marker f h]
  simp only [subst]
  by_cases hl : 0 < f.length
  · simp [hl]
  · have : f = [] := by cases f with | nil => rfl | cons a b => simp at hl
    simp [this]

/-! ### `$(`-free text is returned unchanged by `eval` -/

theorem eval_no_marker_identity (ev : EvalExpr) (f : Bytes)
    (h : findSub dollarParen f = none) : eval ev f = .ok f := by
  simp [eval, h]

theorem expand_eval_no_marker_identity (ev : EvalExpr) (r : Vars) (pol : Policy) (f : Bytes)
    (h1 : findSub dollarBrace f = none) (h2 : findSub dollarParen f = none) :
    expandEval ev r pol f = .ok f := by
  simp [expandEval, no_marker_identity r pol f h1, eval_no_marker_identity ev f h2]

/-! ### the expander returns a value or a *typed* error: never `panic`, never an `expr` error -/

def Typed : XErr → Prop
  | .missing _ | .unclosed _ | .cycle _ | .fuel => True
  | _ => False

theorem scan_typed (f : Bytes) : ∀ fuel cursor acc esc e,
    scan f fuel cursor acc esc = .error e → Typed e := by
  intro fuel
  induction fuel with
  | zero => intro cursor acc esc e h; simp [scan] at h; subst h; trivial
  | succ n ih =>
    intro cursor acc esc e h
    unfold scan at h
    split at h
    · split at h
      · cases h
      · split at h
        · exact ih _ _ _ _ h
        · dsimp only at h
          split at h
          · cases h; trivial
          · exact ih _ _ _ _ h
    · cases h

theorem subst_typed (r : Vars) (pol : Policy) (rec : XRec) (f : Bytes) (seen : List Bytes)
    (hrec : ∀ v s e, rec v s = .error e → Typed e) :
    ∀ reps cursor res e, subst r pol rec f seen reps cursor res = .error e → Typed e := by
  intro reps
  induction reps with
  | nil => intro cursor res e h; simp [subst] at h
  | cons rep reps ih =>
    intro cursor res e h
    unfold subst at h
    simp only at h
    split at h
    · cases h; trivial
    · split at h
      · split at h
        · exact ih _ _ _ h
        · rename_i e' he; cases h; exact hrec _ _ _ he
      · split at h
        · cases h; trivial
        · exact ih _ _ _ h
        · exact ih _ _ _ h

theorem step_typed (r : Vars) (pol : Policy) (rec : XRec)
    (hrec : ∀ v s e, rec v s = .error e → Typed e) :
    ∀ f seen e, expandStep r pol rec f seen = .error e → Typed e := by
  intro f seen e h
  unfold expandStep at h
  split at h
  · rename_i e' he; cases h; exact scan_typed _ _ _ _ _ _ he
  · split at h
    · rename_i e' he; cases h; exact subst_typed r pol rec f seen hrec _ _ _ _ he
    · cases h

theorem rec_typed (r : Vars) (pol : Policy) : ∀ n f seen e, expandRec r pol n f seen = .error e → Typed e := by
  intro n
  induction n with
  | zero => intro f seen e h; simp [expandRec] at h; subst h; trivial
  | succ n ih => intro f seen e h; exact step_typed r pol _ ih f seen e h

/-- every error of `expand` is `Missing`, `Unclosed` or `Cycle` (or the model's fuel marker, which
    `fuel_suffices` excludes) — in particular never a panic -/
theorem expand_typed_error (r : Vars) (pol : Policy) (f : Bytes) (e : XErr)
    (h : expand r pol f = .error e) : Typed e :=
  rec_typed r pol _ f [] e h

theorem expand_no_panic (r : Vars) (pol : Policy) (f : Bytes) : expand r pol f ≠ .error .panic := by
  intro h; exact expand_typed_error r pol f _ h

theorem scan_not_missing (f : Bytes) (k : Bytes) : ∀ fuel cursor acc esc,
    scan f fuel cursor acc esc ≠ .error (.missing k) := by
  intro fuel
  induction fuel with
  | zero => intro cursor acc esc h; simp [scan] at h
  | succ n ih =>
    intro cursor acc esc h
    unfold scan at h
    split at h
    · split at h
      · cases h
      · split at h
        · exact ih _ _ _ h
        · dsimp only at h
          split at h
          · cases h
          · exact ih _ _ _ h
    · cases h

theorem subst_not_missing (r : Vars) (pol : Policy) (hp : pol ≠ .error) (rec : XRec) (f : Bytes)
    (seen : List Bytes) (k : Bytes) (hrec : ∀ v s, rec v s ≠ .error (.missing k)) :
    ∀ reps cursor res, subst r pol rec f seen reps cursor res ≠ .error (.missing k) := by
  intro reps
  induction reps with
  | nil => intro cursor res h; simp [subst] at h
  | cons rep reps ih =>
    intro cursor res h
    unfold subst at h
    simp only at h
    split at h
    · cases h
    · split at h
      · split at h
        · exact ih _ _ h
        · rename_i e' he; cases h; exact hrec _ _ he
      · cases pol with
        | error => exact hp rfl
        | ignore => exact ih _ _ h
        | empty => exact ih _ _ h

/-- `Missing` is only reported under the `Error` policy -/
theorem missing_only_if_asked (r : Vars) (pol : Policy) (hp : pol ≠ .error) (f : Bytes) (k : Bytes) :
    expand r pol f ≠ .error (.missing k) := by
  suffices h : ∀ n f seen, expandRec r pol n f seen ≠ .error (.missing k) from h _ _ _
  intro n
  induction n with
  | zero => intro f seen h; simp [expandRec] at h
  | succ n ih =>
    intro f seen h
    simp only [expandRec, expandStep] at h
    split at h
    · rename_i e' he; cases h; exact scan_not_missing _ _ _ _ _ _ he
    · split at h
      · rename_i e' he; cases h
        exact subst_not_missing r pol hp _ f seen k (fun v s => ih v s) _ _ _ he
      · cases h

-- concrete behaviour (tests, labelled as such): escapes, policies, cycles, `$$(`
section examples
def v (s : List UInt8) := s
-- "${A}" with A ↦ "${A}" is a cycle
example : expand [([65], [36,123,65,125])] .ignore [36,123,65,125] = .error (.cycle [65]) := by decide
-- "\${A}" stays the literal "${A}"
example : expand [([65], [120])] .ignore [92,36,123,65,125] = .ok [36,123,65,125] := by decide
-- "é${A}" (multi-byte char directly before the reference) expands
example : expand [([65], [120])] .ignore [195,169,36,123,65,125] = .ok [195,169,120] := by decide
-- unknown names: keep / empty / error
example : expand [] .ignore [36,123,65,125] = .ok [36,123,65,125] := by decide
example : expand [] .empty [36,123,65,125] = .ok [] := by decide
example : expand [] .error [36,123,65,125] = .error (.missing [65]) := by decide
end examples

end Laze.C13
