import LazeModel.Model.Gen
import LazeModel.Model.Loader
import LazeModel.Theorems.C09_perm
/-! C04 — the layering of environments.

  1. `global_env_spec`   : the global env (link command, tasks) is
        built-ins ⊕ builder context env ⊕ module globals (REVERSE selection order) ⊕ `-D`.
  2. `ctx_env_is_fold`   : the env of a context after `finalize` is the left fold of the own envs
        along the chain root → context.
  3. `module_env_spec`   : a module's env is global ⊕ exports of the import closure (in `importsOf`
        order) ⊕ its own local env; `notify` is the list of defines of the import closure.
  4. `imports_self_last` : the import closure ends with the module itself and has no duplicates.

  "⊕" is `Env.merge`; every law is stated as a lookup law through `C09.mergeOpt`
  (list onto list appends, otherwise the later value wins: `C09.merge_rules`). -/
namespace Laze.C04
open Laze Laze.C09

/-! ## 1. the global env -/

/-- the variables `globalEnv` inserts itself -/
def reserved : List String := ["builder", "app", "relpath", "relroot", "modules", "contexts"]

/-- the (already chain-merged, see §2) env of the builder context -/
def builderCtxEnv (b : Bag) (builder : Name) : Env := ((b.ctx? builder).bind (·.env)).getD []

/-- the `-D` layer -/
def cliEnv (cli : Cli) : Env := cli.env.getD []

/-- the documented layers below `-D`, in merge order -/
def globalLayers (st : Settings) (b : Bag) (builder : Name) (r : Resolved) : List Env :=
  [lazeEnv st, builderCtxEnv b builder] ++ r.modules.reverse.map (·.envGlobal)

/-- `globalEnv` before the `-D` layer -/
def globalBase (st : Settings) (b : Bag) (builder : Name) (app : Module) (r : Resolved) : Env :=
  (((((r.modules.reverse.map (·.envGlobal)).foldl Env.merge
      ((lazeEnv st).merge (((builderCtxEnv b builder).insert "builder" (.single builder)).insert "app"
        (.single app.name)))).insert "relpath" (.single app.relpath)).insert "relroot"
          (.single (relroot app.relpath))).insert "modules"
            (.list ((r.modules.filter (!·.isContextModule)).map (·.name)))).insert "contexts"
              (.list (b.chain builder))

theorem globalEnv_eq (st : Settings) (b : Bag) (builder : Name) (app : Module) (r : Resolved)
    (cli : Cli) :
    globalEnv st b builder app r cli =
      match cli.env with
      | some e => (globalBase st b builder app r).merge e
      | none => globalBase st b builder app r := by
  unfold globalEnv globalBase builderCtxEnv
  rw [List.foldl_map]
  rfl

/-- the `-D` layer is merged last -/
theorem globalEnv_get_cli (st : Settings) (b : Bag) (builder : Name) (app : Module) (r : Resolved)
    (cli : Cli) (hcli : Env.WF (cliEnv cli)) (k : String) :
    (globalEnv st b builder app r cli).get k =
      mergeOpt ((globalBase st b builder app r).get k) ((cliEnv cli).get k) := by
  rw [globalEnv_eq]
  unfold cliEnv at *
  cases h : cli.env with
  | none => simp [Env.get]
  | some e =>
    rw [h] at hcli
    exact merge_get _ e hcli k

theorem lazeEnv_wf (st : Settings) : Env.WF (lazeEnv st) := by
  unfold Env.WF lazeEnv
  simp only [List.map_cons, List.map_nil]
  decide

theorem benv_get (e : Env) (builder appName k : String) (h1 : k ≠ "builder") (h2 : k ≠ "app") :
    ((e.insert "builder" (.single builder)).insert "app" (.single appName)).get k = e.get k := by
  rw [insert_get, if_neg h2, insert_get, if_neg h1]

theorem mem_reserved_iff (k : String) :
    k ∈ reserved ↔ k = "builder" ∨ k = "app" ∨ k = "relpath" ∨ k = "relroot" ∨ k = "modules" ∨
      k = "contexts" := by
  simp [reserved]

/-- the part of `globalBase` below the four final inserts -/
theorem layered_get (st : Settings) (b : Bag) (builder : Name) (appName : String) (r : Resolved)
    (hctx : Env.WF (builderCtxEnv b builder))
    (hmods : ∀ m ∈ r.modules, Env.WF m.envGlobal) (k : String) :
    ((r.modules.reverse.map (·.envGlobal)).foldl Env.merge
      ((lazeEnv st).merge (((builderCtxEnv b builder).insert "builder" (.single builder)).insert "app"
        (.single appName)))).get k =
      ((r.modules.reverse.map (·.envGlobal)).map (·.get k)).foldl mergeOpt
        (mergeOpt ((lazeEnv st).get k)
          ((((builderCtxEnv b builder).insert "builder" (.single builder)).insert "app"
            (.single appName)).get k)) := by
  rw [foldl_merge_get', merge_get _ _ (insert_wf (insert_wf hctx _ _) _ _)]
  intro l hl
  rcases List.mem_map.1 hl with ⟨m, hm, rfl⟩
  exact hmods m (List.mem_reverse.1 hm)

/-- **C04 (global env).**  For every variable that `globalEnv` does not insert itself, the value
    seen by the link command and the tasks is the left fold of `mergeOpt` over: laze's built-ins,
    the builder's context env, the global envs of the selected modules in REVERSE selection order
    — and the `-D` assignments on top. -/
theorem global_env_spec (st : Settings) (b : Bag) (builder : Name) (app : Module) (r : Resolved)
    (cli : Cli) (k : String) (hk : k ∉ reserved)
    (hctx : Env.WF (builderCtxEnv b builder))
    (hmods : ∀ m ∈ r.modules, Env.WF m.envGlobal)
    (hcli : Env.WF (cliEnv cli)) :
    (globalEnv st b builder app r cli).get k =
      mergeOpt (((globalLayers st b builder r).map (·.get k)).foldl mergeOpt none)
        ((cliEnv cli).get k) := by
  rw [mem_reserved_iff] at hk
  simp only [not_or] at hk
  obtain ⟨h1, h2, h3, h4, h5, h6⟩ := hk
  rw [globalEnv_get_cli _ _ _ _ _ _ hcli]
  congr 1
  unfold globalBase
  rw [insert_get, if_neg h6, insert_get, if_neg h5, insert_get, if_neg h4, insert_get, if_neg h3,
    layered_get st b builder app.name r hctx hmods, benv_get _ _ _ _ h1 h2]
  unfold globalLayers
  rw [List.map_append, List.foldl_append]
  rfl

/-- the same law, as the documented sequence of `Env.merge`s -/
theorem global_env_spec' (st : Settings) (b : Bag) (builder : Name) (app : Module) (r : Resolved)
    (cli : Cli) (k : String) (hk : k ∉ reserved)
    (hctx : Env.WF (builderCtxEnv b builder))
    (hmods : ∀ m ∈ r.modules, Env.WF m.envGlobal)
    (hcli : Env.WF (cliEnv cli)) :
    (globalEnv st b builder app r cli).get k =
      (((r.modules.reverse.map (·.envGlobal)).foldl Env.merge
          ((lazeEnv st).merge (builderCtxEnv b builder))).merge (cliEnv cli)).get k := by
  rw [global_env_spec st b builder app r cli k hk hctx hmods hcli, merge_get _ _ hcli,
    foldl_merge_get', merge_get _ _ hctx]
  · unfold globalLayers
    rw [List.map_append, List.foldl_append]
    rfl
  · intro l hl
    rcases List.mem_map.1 hl with ⟨m, hm, rfl⟩
    exact hmods m (List.mem_reverse.1 hm)

/-! ### the inserted variables -/

theorem lazeEnv_get_builder (st : Settings) : (lazeEnv st).get "builder" = none := by
  unfold lazeEnv Env.get
  simp only [List.find?_cons]
  rfl
theorem lazeEnv_get_app (st : Settings) : (lazeEnv st).get "app" = none := by
  unfold lazeEnv Env.get
  simp only [List.find?_cons]
  rfl

/-- `builder` is inserted into the CONTEXT layer: module globals and `-D` are merged on top of it -/
theorem globalEnv_builder (st : Settings) (b : Bag) (builder : Name) (app : Module) (r : Resolved)
    (cli : Cli) (hctx : Env.WF (builderCtxEnv b builder))
    (hmods : ∀ m ∈ r.modules, Env.WF m.envGlobal) (hcli : Env.WF (cliEnv cli)) :
    (globalEnv st b builder app r cli).get "builder" =
      mergeOpt (((r.modules.reverse.map (·.envGlobal)).map (·.get "builder")).foldl mergeOpt
        (some (.single builder))) ((cliEnv cli).get "builder") := by
  rw [globalEnv_get_cli _ _ _ _ _ _ hcli]
  congr 1
  unfold globalBase
  rw [insert_get, if_neg (by decide), insert_get, if_neg (by decide), insert_get,
    if_neg (by decide), insert_get, if_neg (by decide),
    layered_get st b builder app.name r hctx hmods, insert_get, if_neg (by decide), insert_get,
    if_pos rfl, lazeEnv_get_builder]
  rfl

/-- `app` likewise -/
theorem globalEnv_app (st : Settings) (b : Bag) (builder : Name) (app : Module) (r : Resolved)
    (cli : Cli) (hctx : Env.WF (builderCtxEnv b builder))
    (hmods : ∀ m ∈ r.modules, Env.WF m.envGlobal) (hcli : Env.WF (cliEnv cli)) :
    (globalEnv st b builder app r cli).get "app" =
      mergeOpt (((r.modules.reverse.map (·.envGlobal)).map (·.get "app")).foldl mergeOpt
        (some (.single app.name))) ((cliEnv cli).get "app") := by
  rw [globalEnv_get_cli _ _ _ _ _ _ hcli]
  congr 1
  unfold globalBase
  rw [insert_get, if_neg (by decide), insert_get, if_neg (by decide), insert_get,
    if_neg (by decide), insert_get, if_neg (by decide),
    layered_get st b builder app.name r hctx hmods, insert_get, if_pos rfl, lazeEnv_get_app]
  rfl

/-- `relpath`, `relroot`, `modules`, `contexts` are inserted after every layer except `-D`:
    only a `-D` assignment can change (or, for the two lists, extend) them -/
theorem globalEnv_relpath (st : Settings) (b : Bag) (builder : Name) (app : Module) (r : Resolved)
    (cli : Cli) (hcli : Env.WF (cliEnv cli)) :
    (globalEnv st b builder app r cli).get "relpath" =
      mergeOpt (some (.single app.relpath)) ((cliEnv cli).get "relpath") := by
  rw [globalEnv_get_cli _ _ _ _ _ _ hcli]
  congr 1
  unfold globalBase
  rw [insert_get, if_neg (by decide), insert_get, if_neg (by decide), insert_get,
    if_neg (by decide), insert_get, if_pos rfl]

theorem globalEnv_relroot (st : Settings) (b : Bag) (builder : Name) (app : Module) (r : Resolved)
    (cli : Cli) (hcli : Env.WF (cliEnv cli)) :
    (globalEnv st b builder app r cli).get "relroot" =
      mergeOpt (some (.single (relroot app.relpath))) ((cliEnv cli).get "relroot") := by
  rw [globalEnv_get_cli _ _ _ _ _ _ hcli]
  congr 1
  unfold globalBase
  rw [insert_get, if_neg (by decide), insert_get, if_neg (by decide), insert_get, if_pos rfl]

theorem globalEnv_modules (st : Settings) (b : Bag) (builder : Name) (app : Module) (r : Resolved)
    (cli : Cli) (hcli : Env.WF (cliEnv cli)) :
    (globalEnv st b builder app r cli).get "modules" =
      mergeOpt (some (.list ((r.modules.filter (!·.isContextModule)).map (·.name))))
        ((cliEnv cli).get "modules") := by
  rw [globalEnv_get_cli _ _ _ _ _ _ hcli]
  congr 1
  unfold globalBase
  rw [insert_get, if_neg (by decide), insert_get, if_pos rfl]

theorem globalEnv_contexts (st : Settings) (b : Bag) (builder : Name) (app : Module) (r : Resolved)
    (cli : Cli) (hcli : Env.WF (cliEnv cli)) :
    (globalEnv st b builder app r cli).get "contexts" =
      mergeOpt (some (.list (b.chain builder))) ((cliEnv cli).get "contexts") := by
  rw [globalEnv_get_cli _ _ _ _ _ _ hcli]
  congr 1
  unfold globalBase
  rw [insert_get, if_pos rfl]

/-- without a `-D` assignment of `modules`, it is exactly the selected non-context modules -/
theorem globalEnv_modules_plain (st : Settings) (b : Bag) (builder : Name) (app : Module)
    (r : Resolved) (cli : Cli) (hcli : Env.WF (cliEnv cli))
    (hno : (cliEnv cli).get "modules" = none) :
    (globalEnv st b builder app r cli).get "modules" =
      some (.list ((r.modules.filter (!·.isContextModule)).map (·.name))) := by
  rw [globalEnv_modules _ _ _ _ _ _ hcli, hno]
  rfl

/-- the global env is well-formed (unique keys) whatever the layers are -/
theorem globalEnv_wf (st : Settings) (b : Bag) (builder : Name) (app : Module) (r : Resolved)
    (cli : Cli) : Env.WF (globalEnv st b builder app r cli) := by
  rw [globalEnv_eq]
  have hb : Env.WF (globalBase st b builder app r) := by
    unfold globalBase
    exact insert_wf (insert_wf (insert_wf (insert_wf
      (foldl_merge_wf _ (merge_wf (lazeEnv_wf st) _)) _ _) _ _) _ _) _ _
  split
  · exact merge_wf hb _
  · exact hb


/-! ## 2. context envs after `finalize` -/

/-- parent env first, own env on top (a context without `env:` inherits the parent's env as is;
    below a context without any env the own env stands alone) -/
def optMerge : Option Env → Option Env → Option Env
  | some p, some e => some (p.merge e)
  | some p, none => some p
  | none, c => c

@[simp] theorem optMerge_none_left (c : Option Env) : optMerge none c = c := rfl

/-- the env / the parent of the context called `n` in a bag -/
def envOf (cs : List Context) (n : Name) : Option Env := (findCtx cs n).bind (·.env)
def parOf (cs : List Context) (n : Name) : Option (Option Name) := (findCtx cs n).map (·.parent)

theorem envOnParent_env (penv : Env) (c : Context) :
    (envOnParent penv c).env = optMerge (some penv) c.env := by
  unfold envOnParent
  dsimp only
  cases c.env <;> rfl

theorem findCtx_name {cs : List Context} {n : Name} {c : Context} (h : findCtx cs n = some c) :
    c.name = n := by
  have := List.find?_some h
  simpa using this

theorem findCtx_updateCtx (cs : List Context) (n : Name) (f : Context → Context)
    (hf : ∀ c, (f c).name = c.name) (n' : Name) :
    findCtx (updateCtx cs n f) n' = if n' = n then (findCtx cs n').map f else findCtx cs n' := by
  unfold findCtx updateCtx
  induction cs with
  | nil => simp
  | cons a t ih =>
    rw [List.map_cons, List.find?_cons, List.find?_cons]
    have hname : (if a.name == n then f a else a).name = a.name := by
      split
      · exact hf a
      · rfl
    rw [hname]
    by_cases ha : a.name = n'
    · have h1 : (a.name == n') = true := by simpa using ha
      rw [h1]
      dsimp only
      by_cases hn : n' = n
      · have h2 : (a.name == n) = true := by simp [ha, hn]
        rw [if_pos hn, if_pos h2]
        rfl
      · have h2 : ¬ ((a.name == n) = true) := by simp [ha, hn]
        rw [if_neg hn, if_neg h2]
    · have h1 : (a.name == n') = false := by simpa using ha
      rw [h1]
      exact ih

theorem findCtx_update_env (cs : List Context) (n : Name) (penv : Env) (n' : Name) :
    findCtx (updateCtx cs n (envOnParent penv)) n' =
      if n' = n then (findCtx cs n').map (envOnParent penv) else findCtx cs n' :=
  findCtx_updateCtx cs n (envOnParent penv) (fun _ => rfl) n'

/-- **one-step law**: `mergeParentEnv` sets the env of the context called `n` to the parent's
    CURRENT env with the context's own env merged on top, and changes nothing else -/
theorem mergeParentEnv_step {cs : List Context} {n : Name} {k : Nat} {c par : Context}
    (hk : k ≠ 0) (hc : findCtx cs n = some c) (hp : parentCtx cs c = some par) (n' : Name) :
    findCtx (mergeParentEnv cs (n, k)) n' =
      if n' = n then some { c with env := optMerge par.env c.env } else findCtx cs n' := by
  unfold mergeParentEnv
  have hk' : ¬ ((k == 0) = true) := by simpa using hk
  rw [if_neg hk']
  dsimp only
  rw [hc]
  dsimp only
  rw [hp]
  dsimp only
  cases hpe : par.env with
  | none =>
    dsimp only
    by_cases hn : n' = n
    · rw [if_pos hn, hn, hc]
      cases c; rfl
    · rw [if_neg hn]
  | some penv =>
    dsimp only
    rw [findCtx_update_env]
    by_cases hn : n' = n
    · rw [if_pos hn, if_pos hn, hn, hc, Option.map_some]
      congr 1
      unfold envOnParent
      cases c.env <;> rfl
    · rw [if_neg hn, if_neg hn]

/-- the env of the context after the step (roots, unknown contexts and contexts whose parent is
    not in the bag are left alone) -/
def newEnv (cs : List Context) (nk : Name × Nat) : Option Env :=
  if nk.2 = 0 then envOf cs nk.1 else
  match parOf cs nk.1 with
  | some (some p) => optMerge (envOf cs p) (envOf cs nk.1)
  | _ => envOf cs nk.1

theorem mergeParentEnv_envOf (cs : List Context) (nk : Name × Nat) (n' : Name) :
    envOf (mergeParentEnv cs nk) n' = if n' = nk.1 then newEnv cs nk else envOf cs n' := by
  obtain ⟨n, k⟩ := nk
  by_cases hn : n' = n
  · subst hn
    rw [if_pos rfl]
    unfold newEnv
    dsimp only
    by_cases hk : k = 0
    · rw [if_pos hk]
      unfold mergeParentEnv
      rw [if_pos (by simpa using hk)]
    · rw [if_neg hk]
      cases hc : findCtx cs n' with
      | none =>
        unfold mergeParentEnv
        rw [if_neg (by simpa using hk)]
        dsimp only
        rw [hc]
        unfold parOf
        rw [hc]
        rfl
      | some c =>
        cases hp : parentCtx cs c with
        | none =>
          have hsame : mergeParentEnv cs (n', k) = cs := by
            unfold mergeParentEnv
            rw [if_neg (by simpa using hk)]
            dsimp only
            rw [hc]
            dsimp only
            rw [hp]
          rw [hsame]
          unfold parOf
          rw [hc, Option.map_some]
          unfold parentCtx at hp
          cases hpar : c.parent with
          | none => rfl
          | some p =>
            rw [hpar, Option.bind_some] at hp
            dsimp only
            unfold envOf
            rw [hp]
            rfl
        | some par =>
          unfold envOf
          rw [mergeParentEnv_step hk hc hp n', if_pos rfl, Option.bind_some]
          dsimp only
          unfold parOf
          rw [hc, Option.map_some]
          unfold parentCtx at hp
          cases hpar : c.parent with
          | none => rw [hpar] at hp; cases hp
          | some p =>
            rw [hpar, Option.bind_some] at hp
            dsimp only
            rw [hp, Option.bind_some, Option.bind_some]
  · rw [if_neg hn]
    unfold mergeParentEnv
    dsimp only
    split
    · rfl
    · split
      · rfl
      · split
        · rfl
        · split
          · unfold envOf
            rw [findCtx_update_env, if_neg hn]
          · rfl

theorem mergeParentEnv_parOf (cs : List Context) (nk : Name × Nat) (n' : Name) :
    parOf (mergeParentEnv cs nk) n' = parOf cs n' := by
  unfold mergeParentEnv
  split
  · rfl
  · split
    · rfl
    · split
      · rfl
      · split
        · unfold parOf
          rw [findCtx_update_env]
          split
          · rw [Option.map_map]; rfl
          · rfl
        · rfl


theorem foldl_inv' {α β : Type _} (P : β → Prop) (f : β → α → β) (l : List α) (init : β)
    (h0 : P init) (hs : ∀ b a, P b → P (f b a)) : P (l.foldl f init) := by
  induction l generalizing init with
  | nil => exact h0
  | cons a t ih => exact ih _ (hs _ _ h0)

/-! ### the env pass as a whole -/

theorem foldl_mergeParentEnv_parOf (sorted : List (Name × Nat)) (cs : List Context) (n' : Name) :
    parOf (sorted.foldl mergeParentEnv cs) n' = parOf cs n' := by
  induction sorted generalizing cs with
  | nil => rfl
  | cons x t ih => rw [List.foldl_cons, ih, mergeParentEnv_parOf]

/-- a context that is not in the work list keeps its env -/
theorem foldl_mergeParentEnv_untouched (sorted : List (Name × Nat)) (cs : List Context) (n' : Name)
    (h : n' ∉ sorted.map (·.1)) : envOf (sorted.foldl mergeParentEnv cs) n' = envOf cs n' := by
  induction sorted generalizing cs with
  | nil => rfl
  | cons x t ih =>
    rw [List.map_cons, List.mem_cons, not_or] at h
    rw [List.foldl_cons, ih _ h.2, mergeParentEnv_envOf, if_neg h.1]

/-- "parents before children": a context with a parent has a non-zero count, and its parent occurs
    neither at its own position nor later in the work list -/
def ParentsFirst (P : Name → Option (Option Name)) : List (Name × Nat) → Prop
  | [] => True
  | x :: rest =>
    (∀ p, P x.1 = some (some p) → x.2 ≠ 0 ∧ p ≠ x.1 ∧ p ∉ rest.map (·.1)) ∧ ParentsFirst P rest

/-- the env a context should end up with, given the final env of its parent -/
def finalEnvLaw (cs final : List Context) (n : Name) : Prop :=
  envOf final n =
    match parOf cs n with
    | some (some p) => optMerge (envOf final p) (envOf cs n)
    | _ => envOf cs n

/-- processing a work list with unique names in which parents come first gives every listed
    context the FINAL env of its parent with its own ORIGINAL env merged on top -/
theorem foldl_mergeParentEnv_law (sorted : List (Name × Nat)) (cs : List Context)
    (hnd : (sorted.map (·.1)).Nodup) (hord : ParentsFirst (parOf cs) sorted)
    (n : Name) (hn : n ∈ sorted.map (·.1)) :
    finalEnvLaw cs (sorted.foldl mergeParentEnv cs) n := by
  induction sorted generalizing cs with
  | nil => cases hn
  | cons x t ih =>
    rw [List.map_cons, List.nodup_cons] at hnd
    obtain ⟨hx, hrest⟩ := hord
    rw [List.map_cons, List.mem_cons] at hn
    unfold finalEnvLaw
    rw [List.foldl_cons]
    by_cases hnx : n = x.1
    · subst hnx
      rw [foldl_mergeParentEnv_untouched t _ _ hnd.1, mergeParentEnv_envOf, if_pos rfl]
      unfold newEnv
      cases hp : parOf cs x.1 with
      | none => simp
      | some o =>
        cases o with
        | none => simp
        | some p =>
          obtain ⟨hk, hpx, hpt⟩ := hx p hp
          rw [if_neg hk]
          dsimp only
          rw [foldl_mergeParentEnv_untouched t _ _ hpt, mergeParentEnv_envOf, if_neg hpx]
    · have hnt : n ∈ t.map (·.1) := by
        rcases hn with h | h
        · exact absurd h hnx
        · exact h
      have hord' : ParentsFirst (parOf (mergeParentEnv cs x)) t := by
        have : parOf (mergeParentEnv cs x) = parOf cs := by
          funext k; exact mergeParentEnv_parOf cs x k
        rw [this]; exact hrest
      have := ih (mergeParentEnv cs x) hnd.2 hord' hnt
      unfold finalEnvLaw at this
      rw [this, mergeParentEnv_parOf, mergeParentEnv_envOf, if_neg hnx]

/-! ### the var_options pass does not touch envs -/

theorem findCtx_update_vo (cs : List Context) (n : Name) (vo : Option VarOpts) (n' : Name) :
    findCtx (updateCtx cs n (setVarOptions vo)) n' =
      if n' = n then (findCtx cs n').map (setVarOptions vo) else findCtx cs n' :=
  findCtx_updateCtx cs n (setVarOptions vo) (fun _ => rfl) n'

theorem inheritVarOptions_envOf (cs : List Context) (nk : Name × Nat) (n' : Name) :
    envOf (inheritVarOptions cs nk) n' = envOf cs n' := by
  unfold inheritVarOptions
  split
  · rfl
  · split
    · rfl
    · split
      · rfl
      · split
        · unfold envOf
          rw [findCtx_update_vo]
          split
          · cases findCtx cs n' <;> rfl
          · rfl
        · rfl

theorem foldl_inheritVarOptions_envOf (sorted : List (Name × Nat)) (cs : List Context) (n' : Name) :
    envOf (sorted.foldl inheritVarOptions cs) n' = envOf cs n' := by
  induction sorted generalizing cs with
  | nil => rfl
  | cons x t ih => rw [List.foldl_cons, ih, inheritVarOptions_envOf]

theorem inheritAll_envOf (cs : List Context) (sorted : List (Name × Nat)) (n' : Name) :
    envOf (inheritAll cs sorted) n' = envOf (sorted.foldl mergeParentEnv cs) n' := by
  unfold inheritAll
  exact foldl_inheritVarOptions_envOf _ _ _

/-! ### the work list of `finalize`: sorted by parent count -/

theorem insertByCount_perm (x : Name × Nat) (l : List (Name × Nat)) :
    (insertByCount x l).Perm (x :: l) := by
  induction l with
  | nil => exact List.Perm.refl _
  | cons y ys ih =>
    unfold insertByCount
    split
    · exact ((List.Perm.cons y ih).trans (List.Perm.swap x y ys))
    · exact List.Perm.refl _

theorem foldl_insertByCount_perm (l init : List (Name × Nat)) :
    (l.foldl (fun acc x => insertByCount x acc) init).Perm (l ++ init) := by
  induction l generalizing init with
  | nil => exact List.Perm.refl _
  | cons x t ih =>
    rw [List.foldl_cons]
    refine (ih _).trans ?_
    refine (List.Perm.append_left t (insertByCount_perm x init)).trans ?_
    exact List.perm_middle

theorem sortByCount_perm (counts : List (Name × Nat)) : (sortByCount counts).Perm counts := by
  have := foldl_insertByCount_perm counts []
  rwa [List.append_nil] at this

theorem insertByCount_sorted (x : Name × Nat) (l : List (Name × Nat))
    (h : l.Pairwise (fun a b => a.2 ≤ b.2)) :
    (insertByCount x l).Pairwise (fun a b => a.2 ≤ b.2) := by
  induction l with
  | nil => exact List.pairwise_singleton _ _
  | cons y ys ih =>
    rw [List.pairwise_cons] at h
    unfold insertByCount
    split
    · rename_i hle
      rw [List.pairwise_cons]
      refine ⟨?_, ih h.2⟩
      intro z hz
      rcases List.mem_cons.1 ((insertByCount_perm x ys).mem_iff.1 hz) with hz | hz
      · rw [hz]; exact hle
      · exact h.1 z hz
    · rename_i hgt
      have hlt : x.2 ≤ y.2 := Nat.le_of_lt (Nat.lt_of_not_le hgt)
      rw [List.pairwise_cons]
      refine ⟨?_, List.pairwise_cons.2 h⟩
      intro z hz
      rcases List.mem_cons.1 hz with hz | hz
      · rw [hz]; exact hlt
      · exact Nat.le_trans hlt (h.1 z hz)

theorem sortByCount_sorted (counts : List (Name × Nat)) :
    (sortByCount counts).Pairwise (fun a b => a.2 ≤ b.2) := by
  unfold sortByCount
  apply foldl_inv' (fun l : List (Name × Nat) => l.Pairwise (fun a b => a.2 ≤ b.2))
  · exact List.Pairwise.nil
  · intro b a hb
    exact insertByCount_sorted a b hb


/-! ### parent counts -/

theorem countParents_succ (cs : List Context) (f : Nat) (n : Name) :
    countParents cs (f + 1) n =
      match findCtx cs n with
      | none => some 0
      | some c => match c.parent with
        | none => some 0
        | some p => (countParents cs f p).map (· + 1) := rfl

theorem countParents_mono (cs : List Context) (f : Nat) (n : Name) (k : Nat)
    (h : countParents cs f n = some k) : countParents cs (f + 1) n = some k := by
  induction f generalizing n k with
  | zero => cases h
  | succ f ih =>
    rw [countParents_succ] at h ⊢
    cases hc : findCtx cs n with
    | none => rw [hc] at h; exact h
    | some c =>
      rw [hc] at h
      dsimp only at h ⊢
      cases hp : c.parent with
      | none => rw [hp] at h; exact h
      | some p =>
        rw [hp] at h
        dsimp only at h ⊢
        cases hq : countParents cs f p with
        | none => rw [hq] at h; cases h
        | some kp => rw [hq] at h; rw [ih p kp hq]; exact h

/-- a context with a parent has one parent more than its parent -/
theorem countParents_parent {cs : List Context} {f : Nat} {n : Name} {k : Nat} {c : Context}
    {p : Name} (h : countParents cs (f + 1) n = some k) (hc : findCtx cs n = some c)
    (hp : c.parent = some p) : ∃ kp, countParents cs f p = some kp ∧ k = kp + 1 := by
  rw [countParents_succ, hc] at h
  dsimp only at h
  rw [hp] at h
  dsimp only at h
  cases hq : countParents cs f p with
  | none => rw [hq] at h; cases h
  | some kp =>
    rw [hq] at h
    refine ⟨kp, rfl, ?_⟩
    simpa using h.symm

theorem parentCounts_spec {cs l : List Context} {counts : List (Name × Nat)}
    (h : parentCounts cs l = .ok counts) :
    counts.map (·.1) = l.map (·.name) ∧
      ∀ x ∈ counts, countParents cs (cs.length + 1) x.1 = some x.2 := by
  induction l generalizing counts with
  | nil =>
    unfold parentCounts at h
    cases h
    exact ⟨rfl, fun x hx => absurd hx List.not_mem_nil⟩
  | cons c rest ih =>
    unfold parentCounts at h
    split at h
    · cases h
    · rename_i k hk
      split at h
      · cases h
      · rename_i l' hl'
        cases h
        obtain ⟨h1, h2⟩ := ih hl'
        refine ⟨by rw [List.map_cons, List.map_cons, h1], ?_⟩
        intro x hx
        rcases List.mem_cons.1 hx with hx | hx
        · rw [hx]; exact hk
        · exact h2 x hx

theorem parOf_some_some {cs : List Context} {n p : Name} (h : parOf cs n = some (some p)) :
    ∃ c, findCtx cs n = some c ∧ c.parent = some p := by
  unfold parOf at h
  cases hc : findCtx cs n with
  | none => rw [hc] at h; cases h
  | some c =>
    rw [hc, Option.map_some] at h
    exact ⟨c, rfl, Option.some.inj h⟩

/-- a work list sorted by parent count has parents before children -/
theorem parentsFirst_of_sorted (cs : List Context) (sorted : List (Name × Nat))
    (hs : sorted.Pairwise (fun a b => a.2 ≤ b.2))
    (hc : ∀ x ∈ sorted, countParents cs (cs.length + 1) x.1 = some x.2) :
    ParentsFirst (parOf cs) sorted := by
  induction sorted with
  | nil => trivial
  | cons x t ih =>
    rw [List.pairwise_cons] at hs
    refine ⟨?_, ih hs.2 (fun z hz => hc z (List.mem_cons_of_mem _ hz))⟩
    intro p hp
    obtain ⟨c, hfc, hcp⟩ := parOf_some_some hp
    obtain ⟨kp, hkp, hk⟩ := countParents_parent (hc x List.mem_cons_self) hfc hcp
    have hkp' := countParents_mono cs _ p kp hkp
    refine ⟨by omega, ?_, ?_⟩
    · intro hpx
      rw [hpx, hc x List.mem_cons_self] at hkp'
      have := Option.some.inj hkp'
      omega
    · intro hpt
      rcases List.mem_map.1 hpt with ⟨z, hz, hzp⟩
      have h1 := hc z (List.mem_cons_of_mem _ hz)
      rw [hzp, hkp'] at h1
      have h2 := Option.some.inj h1
      have h3 := hs.1 z hz
      omega

/-! ### `finalize` -/

/-- **C04 (context env), recursive form.**  After `finalize`, the env of a root context is its own
    env, and the env of every other context is the FINAL env of its parent with the context's own
    (original) env merged on top.  (`names unique` is what the loader guarantees; with duplicate
    names a context would be merged twice.) -/
theorem ctx_env_law {cs0 cs : List Context} {sorted : List (Name × Nat)}
    (h : finalize cs0 = .ok (cs, sorted))
    (hnd : ((withDefaultContext cs0).map (·.name)).Nodup)
    (n : Name) (hn : n ∈ (withDefaultContext cs0).map (·.name)) :
    finalEnvLaw (withDefaultContext cs0) cs n := by
  unfold finalize finalizeBag at h
  split at h
  · cases h
  · split at h
    · cases h
    · rename_i counts hcounts
      cases h
      obtain ⟨hnames, hcnt⟩ := parentCounts_spec hcounts
      have hperm := sortByCount_perm counts
      have hpn : ((sortByCount counts).map (·.1)).Perm ((withDefaultContext cs0).map (·.name)) := by
        rw [← hnames]; exact hperm.map _
      have hsnd : ((sortByCount counts).map (·.1)).Nodup := hpn.nodup_iff.2 hnd
      have hord := parentsFirst_of_sorted (withDefaultContext cs0) (sortByCount counts)
        (sortByCount_sorted counts) (fun x hx => hcnt x (hperm.mem_iff.1 hx))
      have := foldl_mergeParentEnv_law (sortByCount counts) (withDefaultContext cs0) hsnd hord n
        (hpn.mem_iff.2 hn)
      unfold finalEnvLaw at this ⊢
      rw [inheritAll_envOf, this]
      cases parOf (withDefaultContext cs0) n with
      | none => rfl
      | some o =>
        cases o with
        | none => rfl
        | some p => dsimp only; rw [inheritAll_envOf]

theorem withDefaultContext_nodup {cs0 : List Context} (h : (cs0.map (·.name)).Nodup) :
    ((withDefaultContext cs0).map (·.name)).Nodup := by
  unfold withDefaultContext
  split
  · exact h
  · rename_i hno
    rw [List.map_append, List.nodup_append]
    refine ⟨h, List.nodup_cons.2 ⟨List.not_mem_nil, List.nodup_nil⟩, ?_⟩
    intro a ha b hb hab
    rw [List.map_cons, List.map_nil, List.mem_singleton] at hb
    apply hno
    rcases List.mem_map.1 ha with ⟨c, hc, hca⟩
    rw [List.any_eq_true]
    refine ⟨c, hc, ?_⟩
    rw [hca, hab, hb]
    rfl

/-! ### the chain fold -/

/-- the left fold of the own envs along the chain root → `n` -/
def chainEnv (cs : List Context) : Nat → Name → Option Env
  | 0, _ => none
  | f + 1, n =>
    match findCtx cs n with
    | none => none
    | some c => match c.parent with
      | none => c.env
      | some p => optMerge (chainEnv cs f p) c.env

theorem tree_ctx? (cs : List Context) (n : Name) :
    (Bag.mk cs).tree.ctx? n = (findCtx cs n).map (fun c => ⟨c.name, c.parent⟩) := by
  unfold Bag.tree Tree.ctx? findCtx
  dsimp only
  induction cs with
  | nil => rfl
  | cons a t ih =>
    rw [List.map_cons, List.find?_cons, List.find?_cons]
    dsimp only
    split
    · rfl
    · exact ih

/-- `chainEnv` is literally the left fold of `optMerge` over the own envs of the contexts on
    the chain `[n, parent n, …, root]`, taken from the root down -/
theorem chainEnv_eq_fold (cs : List Context) (f : Nat) (n : Name) :
    chainEnv cs f n =
      (((Bag.mk cs).tree.chainUp f n).reverse.map (envOf cs)).foldl optMerge none := by
  induction f generalizing n with
  | zero => rfl
  | succ f ih =>
    unfold chainEnv Tree.chainUp
    rw [tree_ctx?]
    cases hc : findCtx cs n with
    | none => rfl
    | some c =>
      have he : envOf cs n = c.env := by unfold envOf; rw [hc]; rfl
      rw [Option.map_some]
      dsimp only
      cases hp : c.parent with
      | none =>
        dsimp only
        rw [List.reverse_cons, List.reverse_nil, List.nil_append, List.map_cons, List.map_nil,
          List.foldl_cons, List.foldl_nil, he]
        rfl
      | some p =>
        dsimp only
        rw [List.reverse_cons, List.map_append, List.foldl_append, ← ih p, List.map_cons,
          List.map_nil, List.foldl_cons, List.foldl_nil, he]

theorem parentKnown_find {cs : List Context} {c : Context} {p : Name}
    (hall : cs.all (parentKnown cs) = true) (hc : c ∈ cs) (hp : c.parent = some p) :
    p ∈ cs.map (·.name) := by
  rw [List.all_eq_true] at hall
  have := hall c hc
  unfold parentKnown at this
  rw [hp] at this
  dsimp only at this
  rw [List.any_eq_true] at this
  obtain ⟨d, hd, hdn⟩ := this
  exact List.mem_map.2 ⟨d, hd, by simpa using hdn⟩

theorem findCtx_of_mem_names {cs : List Context} {n : Name} (h : n ∈ cs.map (·.name)) :
    ∃ c, findCtx cs n = some c := by
  cases hc : findCtx cs n with
  | some c => exact ⟨c, rfl⟩
  | none =>
    exfalso
    unfold findCtx at hc
    rw [List.find?_eq_none] at hc
    rcases List.mem_map.1 h with ⟨c, hcm, hcn⟩
    apply hc c hcm
    simpa using hcn

theorem law_to_chain {cs' final : List Context} (hall : cs'.all (parentKnown cs') = true)
    (hlaw : ∀ n, n ∈ cs'.map (·.name) → finalEnvLaw cs' final n)
    (f : Nat) (n : Name) (k : Nat) (hn : n ∈ cs'.map (·.name))
    (hcount : countParents cs' f n = some k) : envOf final n = chainEnv cs' f n := by
  induction f generalizing n k with
  | zero => cases hcount
  | succ f ih =>
    obtain ⟨c, hc⟩ := findCtx_of_mem_names hn
    have hl := hlaw n hn
    unfold finalEnvLaw parOf at hl
    rw [hc, Option.map_some] at hl
    unfold chainEnv
    rw [hc]
    dsimp only
    have he : envOf cs' n = c.env := by unfold envOf; rw [hc]; rfl
    cases hp : c.parent with
    | none =>
      rw [hp] at hl
      dsimp only at hl ⊢
      rw [hl, he]
    | some p =>
      rw [hp] at hl
      dsimp only at hl ⊢
      obtain ⟨kp, hkp, _⟩ := countParents_parent hcount hc hp
      have hcm : c ∈ cs' := List.mem_of_find?_eq_some hc
      rw [hl, he, ih p kp (parentKnown_find hall hcm hp) hkp]

/-- **C04 (context env).**  After `finalize`, the env of every context is the left fold of
    `optMerge` (= `Env.merge` where both sides have an env) over the own envs of the contexts on its
    chain, from the root down to the context itself. -/
theorem ctx_env_is_fold {cs0 cs : List Context} {sorted : List (Name × Nat)}
    (h : finalize cs0 = .ok (cs, sorted)) (hnd : (cs0.map (·.name)).Nodup)
    (n : Name) (hn : n ∈ (withDefaultContext cs0).map (·.name)) :
    envOf cs n =
      ((((Bag.mk (withDefaultContext cs0)).chain n).reverse.map
        (envOf (withDefaultContext cs0))).foldl optMerge none) := by
  have hnd' := withDefaultContext_nodup hnd
  have hlaw := fun n hn => ctx_env_law h hnd' n hn
  unfold Bag.chain Tree.chain
  rw [← chainEnv_eq_fold]
  have hlen : (Bag.mk (withDefaultContext cs0)).tree.length = (withDefaultContext cs0).length := by
    unfold Bag.tree; rw [List.length_map]
  rw [hlen]
  unfold finalize finalizeBag at h
  split at h
  · cases h
  · rename_i hall
    split at h
    · cases h
    · rename_i counts hcounts
      obtain ⟨hnames, hcnt⟩ := parentCounts_spec hcounts
      have : ∃ k, (n, k) ∈ counts := by
        rw [← hnames] at hn
        rcases List.mem_map.1 hn with ⟨x, hx, hxn⟩
        exact ⟨x.2, by rw [← hxn]; exact hx⟩
      obtain ⟨k, hk⟩ := this
      exact law_to_chain (by simpa using hall) hlaw _ n k hn (hcnt _ hk)

/-- two-level corollary: a child of a root context gets `root env ⊕ own env` -/
theorem ctx_env_two_level {cs0 cs : List Context} {sorted : List (Name × Nat)}
    (h : finalize cs0 = .ok (cs, sorted)) (hnd : (cs0.map (·.name)).Nodup)
    {c par : Context} {p : Name} {pe e : Env}
    (hc : findCtx (withDefaultContext cs0) c.name = some c) (hcp : c.parent = some p)
    (hpar : findCtx (withDefaultContext cs0) p = some par) (hroot : par.parent = none)
    (hpe : par.env = some pe) (he : c.env = some e) :
    envOf cs c.name = some (pe.merge e) := by
  have hnd' := withDefaultContext_nodup hnd
  have hmem : ∀ {n d}, findCtx (withDefaultContext cs0) n = some d →
      n ∈ (withDefaultContext cs0).map (·.name) := by
    intro n d hd
    exact List.mem_map.2 ⟨d, List.mem_of_find?_eq_some hd, findCtx_name hd⟩
  have l1 := ctx_env_law h hnd' c.name (hmem hc)
  have l2 := ctx_env_law h hnd' p (hmem hpar)
  unfold finalEnvLaw parOf envOf at l1 l2
  rw [hc, Option.map_some, hcp] at l1
  rw [hpar, Option.map_some, hroot] at l2
  dsimp only at l1 l2
  unfold envOf
  rw [l1, l2, Option.bind_some, Option.bind_some, hpe, he]
  rfl

/-! ### the loader hands `finalize` unique context names -/

theorem convertContext_name {y : YContext} {isB : Bool} {filename : String} {cm : Context × Module}
    (h : convertContext y isB filename = .ok cm) : cm.1.name = y.name := by
  unfold convertContext at h
  simp only [bind, Except.bind, pure, Except.pure] at h
  split at h
  · cases h
  · split at h
    · cases h
    · split at h
      · cases h
      · cases h; rfl

theorem addContext_nodup {filename : String} {isB : Bool} {acc acc' : List Context × List Module}
    {y : YContext} (h : addContext filename isB acc y = .ok acc')
    (hnd : (acc.1.map (·.name)).Nodup) : (acc'.1.map (·.name)).Nodup := by
  unfold addContext at h
  split at h
  · cases h
  · rename_i hno
    split at h
    · cases h
    · rename_i cm hcm
      cases h
      dsimp only
      rw [List.map_append, List.nodup_append]
      refine ⟨hnd, List.nodup_cons.2 ⟨List.not_mem_nil, List.nodup_nil⟩, ?_⟩
      intro a ha b hb hab
      rw [List.map_cons, List.map_nil, List.mem_singleton, convertContext_name hcm] at hb
      apply hno
      rcases List.mem_map.1 ha with ⟨c, hc, hca⟩
      rw [List.any_eq_true]
      exact ⟨c, hc, by rw [hca, hab, hb]; simp⟩

theorem addContexts_nodup {filename : String} {isB : Bool} (ys : List YContext)
    {acc acc' : List Context × List Module} (h : addContexts filename isB ys acc = .ok acc')
    (hnd : (acc.1.map (·.name)).Nodup) : (acc'.1.map (·.name)).Nodup := by
  induction ys generalizing acc with
  | nil => unfold addContexts at h; cases h; exact hnd
  | cons y ys ih =>
    unfold addContexts at h
    split at h
    · cases h
    · rename_i acc1 h1
      exact ih h (addContext_nodup h1 hnd)

theorem convertContextsOfDocs_nodup (ds : List LDoc) {acc acc' : List Context × List Module}
    (h : convertContextsOfDocs ds acc = .ok acc') (hnd : (acc.1.map (·.name)).Nodup) :
    (acc'.1.map (·.name)).Nodup := by
  induction ds generalizing acc with
  | nil => unfold convertContextsOfDocs at h; cases h; exact hnd
  | cons d ds ih =>
    unfold convertContextsOfDocs at h
    split at h
    · cases h
    · rename_i acc1 h1
      apply ih h
      unfold convertContextsOfDoc at h1
      split at h1
      · cases h1
      · rename_i acc2 h2
        exact addContexts_nodup _ h1 (addContexts_nodup _ h2 hnd)

/-- so for the bag the loader builds, `ctx_env_is_fold` applies without further assumptions -/
theorem loader_ctx_env_is_fold {docs : List LDoc} {cc : List Context × List Module}
    {cs : List Context} {sorted : List (Name × Nat)}
    (hcc : convertContextsOfDocs docs ([], []) = .ok cc) (h : finalize cc.1 = .ok (cs, sorted))
    (n : Name) (hn : n ∈ (withDefaultContext cc.1).map (·.name)) :
    envOf cs n =
      ((((Bag.mk (withDefaultContext cc.1)).chain n).reverse.map
        (envOf (withDefaultContext cc.1))).foldl optMerge none) :=
  ctx_env_is_fold h (convertContextsOfDocs_nodup docs hcc List.nodup_nil) n hn

/-! ## 3. the module env -/

theorem notifyAppend_get {env env' : Env} {dep : Module} (h : notifyAppend env dep = .ok env')
    (k : String) (hk : k ≠ "notify") : env'.get k = env.get k := by
  unfold notifyAppend at h
  split at h
  · cases h
  · cases h; rw [insert_get, if_neg hk]
  · cases h; rw [insert_get, if_neg hk]

/-- one iteration of the `build_env` loop, for every variable except `notify` -/
theorem depEnvStep_get {m dep : Module} {env env' : Env} (h : depEnvStep m dep env = .ok env')
    (hwf : Env.WF dep.envExport) (k : String) (hk : k ≠ "notify") :
    env'.get k = mergeOpt (env.get k) (dep.envExport.get k) := by
  unfold depEnvStep at h
  split at h
  · cases h; exact merge_get _ _ hwf k
  · rw [notifyAppend_get h k hk]; exact merge_get _ _ hwf k

theorem buildEnvLoop_get {deps : List Module} {m : Module} {env env' : Env}
    {bd bd' : Option (List Name)} (h : buildEnvLoop deps m env bd = .ok (env', bd'))
    (hwf : ∀ d ∈ deps, Env.WF d.envExport) (k : String) (hk : k ≠ "notify") :
    env'.get k = (deps.map (·.envExport.get k)).foldl mergeOpt (env.get k) := by
  induction deps generalizing env bd with
  | nil =>
    unfold buildEnvLoop at h
    cases h; rfl
  | cons d ds ih =>
    unfold buildEnvLoop at h
    split at h
    · cases h
    · rename_i env1 hstep
      rw [ih h (fun x hx => hwf x (List.mem_cons_of_mem _ hx)), List.map_cons, List.foldl_cons,
        depEnvStep_get hstep (hwf d List.mem_cons_self) k hk]

theorem notifyAllEnv_get (r : Resolved) (m : Module) (env : Env) (k : String)
    (hk : k ≠ "notify") : (notifyAllEnv r m env).get k = env.get k := by
  unfold notifyAllEnv
  split
  · rw [insert_get, if_neg hk]
  · rfl

/-- **C04 (module env).**  What a module's compile commands see, for every variable except
    `notify`: the global env, then the exported env of every module of the import closure in
    `importsOf` order (dependencies first, the module itself last), then the module's local env.
    (No assumption on `notify_all` is needed for these variables.) -/
theorem module_env_spec {r : Resolved} {m : Module} {genv env : Env} {bdeps : Option (List Name)}
    (h : buildEnv r m genv = .ok (env, bdeps))
    (hexp : ∀ d ∈ importedModules r m, Env.WF d.envExport) (hloc : Env.WF m.envLocal)
    (k : String) (hk : k ≠ "notify") :
    env.get k =
      mergeOpt (((importedModules r m).map (·.envExport.get k)).foldl mergeOpt (genv.get k))
        (m.envLocal.get k) := by
  unfold buildEnv at h
  split at h
  · cases h
  · rename_i p hloop
    cases h
    unfold finishEnv
    rw [merge_get _ _ hloc, notifyAllEnv_get r m p.1 k hk]
    have : buildEnvLoop (importedModules r m) m genv none = .ok (p.1, p.2) := hloop
    rw [buildEnvLoop_get this hexp k hk]

/-- the same law as the documented sequence of merges -/
theorem module_env_spec' {r : Resolved} {m : Module} {genv env : Env} {bdeps : Option (List Name)}
    (h : buildEnv r m genv = .ok (env, bdeps))
    (hexp : ∀ d ∈ importedModules r m, Env.WF d.envExport) (hloc : Env.WF m.envLocal)
    (k : String) (hk : k ≠ "notify") :
    env.get k =
      ((((importedModules r m).map (·.envExport)).foldl Env.merge genv).merge m.envLocal).get k := by
  rw [module_env_spec h hexp hloc k hk, merge_get _ _ hloc, foldl_merge_get', List.map_map]
  · rfl
  · intro l hl
    rcases List.mem_map.1 hl with ⟨d, hd, rfl⟩
    exact hexp d hd

/-! ### `notify` -/

/-- the list value of an optional variable (`[]` when it is absent) -/
def notifyList : Option EnvKey → List String
  | some (.list l) => l
  | _ => []

/-- what one loop iteration does to `notify` (for a module without `notify_all`) -/
def notifyStep (o : Option EnvKey) (d : Module) : Option EnvKey :=
  some (.list (notifyList (mergeOpt o (d.envExport.get "notify")) ++ [defineName d.name]))

theorem notifyAppend_notify {env env' : Env} {dep : Module} (h : notifyAppend env dep = .ok env') :
    env'.get "notify" = some (.list (notifyList (env.get "notify") ++ [defineName dep.name])) := by
  unfold notifyAppend at h
  split at h
  · cases h
  · rename_i l hl
    cases h; rw [insert_get, if_pos rfl, hl]; rfl
  · rename_i hl
    cases h; rw [insert_get, if_pos rfl, hl]; rfl

theorem depEnvStep_notify {m dep : Module} {env env' : Env} (h : depEnvStep m dep env = .ok env')
    (hna : m.notifyAll = false) (hwf : Env.WF dep.envExport) :
    env'.get "notify" = notifyStep (env.get "notify") dep := by
  unfold depEnvStep at h
  rw [hna] at h
  simp only [Bool.false_eq_true, if_false] at h
  rw [notifyAppend_notify h, merge_get _ _ hwf]
  rfl

/-- `notify` after the loop, in general: a left fold of `notifyStep` -/
theorem buildEnvLoop_notify {deps : List Module} {m : Module} {env env' : Env}
    {bd bd' : Option (List Name)} (h : buildEnvLoop deps m env bd = .ok (env', bd'))
    (hna : m.notifyAll = false) (hwf : ∀ d ∈ deps, Env.WF d.envExport) :
    env'.get "notify" = deps.foldl notifyStep (env.get "notify") := by
  induction deps generalizing env bd with
  | nil =>
    unfold buildEnvLoop at h
    cases h; rfl
  | cons d ds ih =>
    unfold buildEnvLoop at h
    split at h
    · cases h
    · rename_i env1 hstep
      rw [ih h (fun x hx => hwf x (List.mem_cons_of_mem _ hx)), List.foldl_cons,
        depEnvStep_notify hstep hna (hwf d List.mem_cons_self)]

/-- when no export defines `notify`, the fold just appends the defines -/
theorem foldl_notifyStep_plain (deps : List Module)
    (hno : ∀ d ∈ deps, d.envExport.get "notify" = none) (l : List String) :
    deps.foldl notifyStep (some (.list l)) = some (.list (l ++ deps.map (defineName ·.name))) := by
  induction deps generalizing l with
  | nil => simp
  | cons d ds ih =>
    rw [List.foldl_cons]
    have : notifyStep (some (.list l)) d = some (.list (l ++ [defineName d.name])) := by
      unfold notifyStep
      rw [hno d List.mem_cons_self]
      rfl
    rw [this, ih (fun x hx => hno x (List.mem_cons_of_mem _ hx))]
    simp

theorem foldl_notifyStep_plain' (deps : List Module) (hne : deps ≠ [])
    (hno : ∀ d ∈ deps, d.envExport.get "notify" = none) (o : Option EnvKey) :
    deps.foldl notifyStep o = some (.list (notifyList o ++ deps.map (defineName ·.name))) := by
  cases deps with
  | nil => exact absurd rfl hne
  | cons d ds =>
    rw [List.foldl_cons]
    have : notifyStep o d = some (.list (notifyList o ++ [defineName d.name])) := by
      unfold notifyStep
      rw [hno d List.mem_cons_self, mergeOpt_none_right]
    rw [this, foldl_notifyStep_plain ds (fun x hx => hno x (List.mem_cons_of_mem _ hx))]
    simp

/-- **C04 (`notify`), general form**: a fold of `notifyStep` over the import closure, the local
    env on top -/
theorem module_env_notify_fold {r : Resolved} {m : Module} {genv env : Env}
    {bdeps : Option (List Name)} (h : buildEnv r m genv = .ok (env, bdeps))
    (hna : m.notifyAll = false)
    (hexp : ∀ d ∈ importedModules r m, Env.WF d.envExport) (hloc : Env.WF m.envLocal) :
    env.get "notify" =
      mergeOpt ((importedModules r m).foldl notifyStep (genv.get "notify"))
        (m.envLocal.get "notify") := by
  unfold buildEnv at h
  split at h
  · cases h
  · rename_i p hloop
    cases h
    unfold finishEnv notifyAllEnv
    rw [hna]
    simp only [Bool.false_eq_true, if_false]
    rw [merge_get _ _ hloc]
    have : buildEnvLoop (importedModules r m) m genv none = .ok (p.1, p.2) := hloop
    rw [buildEnvLoop_notify this hna hexp]

/-- **C04 (`notify`)**: when no module of the import closure exports a variable called `notify`,
    `notify` is whatever list the global env had, followed by the `defineName` of every module of
    the import closure, in `importsOf` order (local env on top) -/
theorem module_env_notify {r : Resolved} {m : Module} {genv env : Env}
    {bdeps : Option (List Name)} (h : buildEnv r m genv = .ok (env, bdeps))
    (hna : m.notifyAll = false) (hne : importedModules r m ≠ [])
    (hexp : ∀ d ∈ importedModules r m, Env.WF d.envExport) (hloc : Env.WF m.envLocal)
    (hno : ∀ d ∈ importedModules r m, d.envExport.get "notify" = none) :
    env.get "notify" =
      mergeOpt (some (.list (notifyList (genv.get "notify") ++
          (importedModules r m).map (defineName ·.name))))
        (m.envLocal.get "notify") := by
  rw [module_env_notify_fold h hna hexp hloc, foldl_notifyStep_plain' _ hne hno]

/-- for a `notify_all` module: every selected non-context module (local env on top) -/
theorem module_env_notify_all {r : Resolved} {m : Module} {genv env : Env}
    {bdeps : Option (List Name)} (h : buildEnv r m genv = .ok (env, bdeps))
    (hna : m.notifyAll = true) (hloc : Env.WF m.envLocal) :
    env.get "notify" =
      mergeOpt (some (.list ((r.modules.filter (!·.isContextModule)).map (defineName ·.name))))
        (m.envLocal.get "notify") := by
  unfold buildEnv at h
  split at h
  · cases h
  · cases h
    unfold finishEnv notifyAllEnv
    rw [hna, if_pos rfl, merge_get _ _ hloc, insert_get, if_pos rfl]

/-- a `single` value of `notify` (from the global env or an export) is rejected by `build_env`
    with a reported error (it used to be a panic: `notify_single_panics`) -/
theorem notify_single_rejected (env : Env) (dep : Module) (s : String)
    (h : env.get "notify" = some (.single s)) :
    notifyAppend env dep = .error (.error "module.rs:build_env notify must be a list") := by
  unfold notifyAppend
  rw [h]

/-! ## 4. the import closure -/

theorem foldl_inv {α β : Type _} (P : β → Prop) (f : β → α → β) (l : List α) (init : β)
    (h0 : P init) (hs : ∀ b a, P b → P (f b a)) : P (l.foldl f init) := by
  induction l generalizing init with
  | nil => exact h0
  | cons a t ih => exact ih _ (hs _ _ h0)

/-- what every level of the recursion guarantees -/
def IRecOK (rec : IRec) : Prop :=
  ∀ n seen, (rec n seen).1.Nodup ∧ (∀ x ∈ (rec n seen).1, x ∉ seen ∧ x ∈ (rec n seen).2) ∧
    (∀ x ∈ seen, x ∈ (rec n seen).2)

/-- the accumulator invariant of the two folds in `importsStep` -/
def AccOK (S : List Name) (acc : List Name × List Name) : Prop :=
  acc.1.Nodup ∧ (∀ x ∈ acc.1, x ∉ S ∧ x ∈ acc.2) ∧ (∀ x ∈ S, x ∈ acc.2)

theorem accOK_call {rec : IRec} (hrec : IRecOK rec) (S : List Name) (acc : List Name × List Name)
    (q : Name) (h : AccOK S acc) :
    AccOK S (acc.1 ++ (rec q acc.2).1, (rec q acc.2).2) := by
  obtain ⟨h1, h2, h3⟩ := h
  obtain ⟨r1, r2, r3⟩ := hrec q acc.2
  refine ⟨?_, ?_, ?_⟩
  · rw [List.nodup_append]
    refine ⟨h1, r1, ?_⟩
    intro a ha b hb hab
    subst hab
    exact (r2 a hb).1 (h2 a ha).2
  · intro x hx
    rcases List.mem_append.1 hx with hx | hx
    · exact ⟨(h2 x hx).1, r3 x (h2 x hx).2⟩
    · exact ⟨fun hs => (r2 x hx).1 (h3 x hs), (r2 x hx).2⟩
  · intro x hx
    exact r3 x (h3 x hx)

theorem importsStep_ok (r : Resolved) {rec : IRec} (hrec : IRecOK rec) :
    IRecOK (importsStep r rec) := by
  intro n seen
  unfold importsStep
  by_cases hc : seen.contains n = true
  · rw [if_pos hc]
    exact ⟨List.nodup_nil, fun x hx => absurd hx List.not_mem_nil, fun x hx => hx⟩
  · rw [if_neg hc]
    have hn : n ∉ seen := fun hm => hc (List.contains_iff_mem.2 hm)
    dsimp only
    cases hm : r.module? n with
    | none =>
      dsimp only
      refine ⟨List.nodup_cons.2 ⟨List.not_mem_nil, List.nodup_nil⟩, ?_, ?_⟩
      · intro x hx
        rw [List.mem_singleton] at hx
        subst hx
        exact ⟨hn, List.mem_append_right _ List.mem_cons_self⟩
      · intro x hx
        exact List.mem_append_left _ hx
    | some m =>
      dsimp only
      have hfold : AccOK (seen ++ [n]) (m.imports.foldl (fun (acc : List Name × List Name) d =>
          match importName r d with
          | none => acc
          | some x =>
            let acc := if r.has x then
                let (res, s) := rec x acc.2
                (acc.1 ++ res, s) else acc
            (r.providersOf x).foldl
              (fun acc q => let (res, s) := rec q acc.2; (acc.1 ++ res, s)) acc) ([], seen ++ [n])) := by
        apply foldl_inv (AccOK (seen ++ [n]))
        · exact ⟨List.nodup_nil, fun x hx => absurd hx List.not_mem_nil, fun x hx => hx⟩
        · intro acc d hacc
          cases importName r d with
          | none => exact hacc
          | some x =>
            dsimp only
            apply foldl_inv (AccOK (seen ++ [n]))
            · split
              · exact accOK_call hrec _ acc x hacc
              · exact hacc
            · intro acc' q hacc'
              exact accOK_call hrec _ acc' q hacc'
      obtain ⟨f1, f2, f3⟩ := hfold
      refine ⟨?_, ?_, ?_⟩
      · rw [List.nodup_append]
        refine ⟨f1, List.nodup_cons.2 ⟨List.not_mem_nil, List.nodup_nil⟩, ?_⟩
        intro a ha b hb hab
        rw [List.mem_singleton] at hb
        subst hab; subst hb
        exact (f2 a ha).1 (List.mem_append_right _ List.mem_cons_self)
      · intro x hx
        rcases List.mem_append.1 hx with hx | hx
        · exact ⟨fun hs => (f2 x hx).1 (List.mem_append_left _ hs), (f2 x hx).2⟩
        · rw [List.mem_singleton] at hx
          subst hx
          exact ⟨hn, f3 x (List.mem_append_right _ List.mem_cons_self)⟩
      · intro x hx
        exact f3 x (List.mem_append_left _ hx)

theorem importsRec_ok (r : Resolved) (fuel : Nat) : IRecOK (importsRec r fuel) := by
  induction fuel with
  | zero =>
    intro n seen
    exact ⟨List.nodup_nil, fun x hx => absurd hx List.not_mem_nil, fun x hx => hx⟩
  | succ f ih => exact importsStep_ok r ih

/-- the import closure has no duplicates: every module's exports are merged exactly once -/
theorem imports_nodup (r : Resolved) (n : Name) : (importsOf r n).Nodup :=
  (importsRec_ok r _ n []).1

/-- the import closure of a selected module ends with the module itself: its own exports are
    merged after those of everything it uses / depends on -/
theorem imports_self_last (r : Resolved) (m : Module) (h : r.module? m.name = some m) :
    ∃ pre, importsOf r m.name = pre ++ [m.name] ∧ m.name ∉ pre := by
  have hnd := imports_nodup r m.name
  have : ∃ pre, importsOf r m.name = pre ++ [m.name] := by
    unfold importsOf
    show ∃ pre, (importsStep r (importsRec r (r.modules.length + 1)) m.name []).1 = _
    unfold importsStep
    rw [if_neg (by simp)]
    dsimp only
    rw [h]
    exact ⟨_, rfl⟩
  obtain ⟨pre, hpre⟩ := this
  refine ⟨pre, hpre, ?_⟩
  rw [hpre, List.nodup_append] at hnd
  intro hm
  exact hnd.2.2 _ hm _ List.mem_cons_self rfl

/-- so the module itself is the LAST module whose exports are merged -/
theorem importedModules_self_last (r : Resolved) (m : Module) (h : r.module? m.name = some m) :
    ∃ pre, importedModules r m = pre ++ [m] := by
  obtain ⟨pre, hpre, _⟩ := imports_self_last r m h
  unfold importedModules
  rw [hpre, List.filterMap_append]
  refine ⟨List.filterMap r.module? pre, ?_⟩
  congr 1
  simp [h]

theorem importedModules_ne_nil (r : Resolved) (m : Module) (h : r.module? m.name = some m) :
    importedModules r m ≠ [] := by
  obtain ⟨pre, hpre⟩ := importedModules_self_last r m h
  rw [hpre]
  simp

/-! ## concrete, non-vacuous instances -/
section Examples

def exBag : Bag :=
  ⟨[{ name := "default", parent := none, env := some [("CFLAGS", .list ["-O2"]), ("CC", .single "gcc")] }]⟩
def exLib : Module :=
  { name := "lib", contextName := "default", envGlobal := [("CFLAGS", .list ["-DLIB"])],
    envExport := [("INC", .list ["-Ilib"])], envLocal := [("CFLAGS", .list ["-DLIB_LOCAL"])] }
def exApp : Module :=
  { name := "app", contextName := "default", imports := [.hard "lib"],
    envGlobal := [("CFLAGS", .list ["-DAPP"]), ("CC", .single "clang")],
    envExport := [("INC", .list ["-Iapp"])], envLocal := [("INC", .list ["-Iprivate"])] }
def exR : Resolved := ⟨[exApp, exLib], []⟩
def exCli : Cli := { env := some [("CFLAGS", .list ["-g"])] }

/-- built-ins, context, module globals in REVERSE selection order (lib, then app), `-D` -/
example : (globalEnv {} exBag "default" exApp exR exCli).get "CFLAGS" =
    some (.list ["-O2", "-DLIB", "-DAPP", "-g"]) := by decide
example : (globalEnv {} exBag "default" exApp exR exCli).get "CC" = some (.single "clang") := by
  decide
example : (globalEnv {} exBag "default" exApp exR exCli).get "modules" =
    some (.list ["app", "lib"]) := by decide

theorem exR_wf : ∀ m ∈ exR.modules, Env.WF m.envGlobal := by
  intro m hm
  simp only [exR, List.mem_cons, List.not_mem_nil, or_false] at hm
  rcases hm with rfl | rfl <;> decide

example := global_env_spec {} exBag "default" exApp exR exCli "CFLAGS" (by decide) (by decide)
  exR_wf (by decide)
example := globalEnv_modules {} exBag "default" exApp exR exCli (by decide)

/-- three levels, listed leaf first: `finalize` processes parents before children -/
def exCtxs : List Context :=
  [{ name := "leaf", parent := some "mid", env := some [("A", .list ["3"]), ("B", .single "leaf")] },
   { name := "mid", parent := some "default", env := some [("A", .list ["2"]), ("B", .single "mid")] },
   { name := "default", parent := none, env := some [("A", .list ["1"])] }]

example : (finalize exCtxs).toOption.map (fun p => (envOf p.1 "leaf", p.2)) =
    some (some [("A", .list ["1", "2", "3"]), ("B", .single "leaf")],
      [("default", 0), ("mid", 1), ("leaf", 2)]) := by decide
example : (Bag.mk (withDefaultContext exCtxs)).chain "leaf" = ["leaf", "mid", "default"] := by decide
example : ((withDefaultContext exCtxs).map (·.name)).Nodup := by decide

/-- global env, exports of the import closure (lib first, app itself last), local env -/
example : importsOf exR "app" = ["lib", "app"] := by decide
example : (buildEnv exR exApp [("INC", .list ["-Iglobal"])]).toOption.map (fun p => p.1.get "INC") =
    some (some (.list ["-Iglobal", "-Ilib", "-Iapp", "-Iprivate"])) := by decide
example : (buildEnv exR exApp []).toOption.map (fun p => p.1.get "notify") =
    some (some (.list [defineName "lib", defineName "app"])) := by rfl
example : exR.module? exApp.name = some exApp := by rfl
example := imports_self_last exR exApp (by rfl)

/-- the hypotheses of `module_env_spec` / `module_env_notify` / `ctx_env_is_fold` hold here -/
example : ∃ env bdeps, buildEnv exR exApp [] = .ok (env, bdeps) ∧ exApp.notifyAll = false ∧
    importedModules exR exApp ≠ [] ∧ (∀ d ∈ importedModules exR exApp, Env.WF d.envExport) ∧
    Env.WF exApp.envLocal ∧ (∀ d ∈ importedModules exR exApp, d.envExport.get "notify" = none) :=
  ⟨_, _, rfl, rfl, by decide, by decide, by decide, by decide⟩
example : ∃ cs sorted, finalize exCtxs = .ok (cs, sorted) ∧ (exCtxs.map (·.name)).Nodup ∧
    "leaf" ∈ (withDefaultContext exCtxs).map (·.name) := ⟨_, _, rfl, by decide, by decide⟩

/-! ## where the model (= the implementation) deviates from the prose of C04

  The documented order is "built-ins, contexts, module globals, `-D`".  The variables laze
  computes itself do NOT all sit in the built-in layer: -/

/-- (a) `builder` / `app` live in the CONTEXT layer, so a selected module's global env (or `-D`)
    silently replaces `${app}` / `${builder}` for the link command and the tasks
    (`globalEnv_builder`, `globalEnv_app`) -/
example :
    (globalEnv {} exBag "default" exApp
      ⟨[exApp, { exLib with envGlobal := [("app", .single "hijacked")] }], []⟩ {}).get "app" =
      some (.single "hijacked") := by decide

/-- (b) `relpath`, `relroot`, `modules`, `contexts` are inserted AFTER the context and module
    layers: a context or module global env defining one of them is silently overwritten
    (only `-D` reaches them, `globalEnv_relpath` …) -/
example :
    (globalEnv {} ⟨[{ name := "default", parent := none, env := some [("relpath", .single "ctx")] }]⟩
      "default" exApp ⟨[exApp, { exLib with envGlobal := [("modules", .list ["mine"])] }], []⟩
      {}).get "relpath" = some (.single ".") ∧
    (globalEnv {} ⟨[{ name := "default", parent := none, env := some [("relpath", .single "ctx")] }]⟩
      "default" exApp ⟨[exApp, { exLib with envGlobal := [("modules", .list ["mine"])] }], []⟩
      {}).get "modules" = some (.list ["app", "lib"]) := by decide

/-- (c) `-D modules+=x` EXTENDS the computed list (list onto list appends) -/
example :
    (globalEnv {} exBag "default" exApp exR { env := some [("modules", .list ["x"])] }).get
      "modules" = some (.list ["app", "lib", "x"]) := by decide

/-- (d) a plain-string variable called `notify` (exported by an imported module, or global)
    makes `build_env` fail with the reported error "notify must be a list" (formerly a panic) -/
example :
    buildEnv ⟨[exApp, { exLib with envExport := [("notify", .single "oops")] }], []⟩ exApp [] =
      .error (.error "module.rs:build_env notify must be a list") := by decide

end Examples

end Laze.C04
