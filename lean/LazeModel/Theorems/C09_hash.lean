import LazeModel.Theorems.C07_hash
/-! C09 — determinism of hashed names: the translator obligation that both hashers of /repo/src are created with fixed keys. -/
namespace Laze.C09hash
open Laze

/-- OBLIGATION (source): `NinjaRule::get_hash` and `utils::calculate_hash` use `DefaultHasher::new()`: the hash of equal inputs is
    the same number in every process, so rule names, object paths, `outs_<hash>` aliases and the `--define` cache key do not
    depend on a per-process seed -/
theorem hashers_have_fixed_keys :
    Generated.hasherCtors = [("NinjaRule::get_hash", "DefaultHasher::new()"), ("utils::calculate_hash", "DefaultHasher::new()")] :=
  C07hash.hashers_have_fixed_keys

end Laze.C09hash
