import LazeModel.Model.MainRun
/-! C16 — tasks: when a task is runnable for a build (`taskAvail`), which builds `laze build <task>`
    runs it for, the refusals, "build first", the keep-going rule and the exit status
    (`runBuild`, `runTasks`, `taskSpawns` of `LazeModel/Model/MainRun.lean`). -/
namespace Laze.C16
open Laze

/-! ## 1. `taskAvail`: runnable ⇔ all `required_vars` set ∧ all `required_modules` selected -/

/-- all `required_vars` of the task are set in the (flattened) build environment -/
def VarsSet (flat : Flat) (t : Task) : Prop := ∀ v ∈ t.requiredVars.getD [], flat.any (·.1 == v) = true
/-- all `required_modules` of the task are selected in the build -/
def ModulesSelected (r : Resolved) (t : Task) : Prop := ∀ m ∈ t.requiredModules.getD [], r.has m = true

theorem find_not_none {α} {p : α → Bool} {l : List α} (h : l.find? (fun x => !p x) = none) :
    ∀ x ∈ l, p x = true := by
  intro x hx
  have := List.find?_eq_none.mp h x hx
  simpa using this

theorem find_not_none_of {α} {p : α → Bool} {l : List α} (h : ∀ x ∈ l, p x = true) :
    l.find? (fun x => !p x) = none := by
  apply List.find?_eq_none.mpr
  intro x hx
  simp [h x hx]

theorem find_not_some {α} {p : α → Bool} {l : List α} {x : α} (h : l.find? (fun x => !p x) = some x) :
    x ∈ l ∧ p x = false ∧ ∃ pre post, l = pre ++ x :: post ∧ ∀ y ∈ pre, p y = true := by
  obtain ⟨hp, pre, post, hl, hpre⟩ := List.find?_eq_some_iff_append.mp h
  refine ⟨by simp [hl], by simpa using hp, pre, post, hl, ?_⟩
  intro y hy
  simpa using hpre y hy

/-- runnable ⇒ every requirement holds (and the task stored is the evaluated one) -/
theorem runnable_ok {ev : EvalExpr} {flat : Flat} {r : Resolved} {t t' : Task}
    (h : taskAvail ev flat r t = .ok (.ok t')) :
    (∀ v ∈ t.requiredVars.getD [], flat.any (·.1 == v) = true) ∧
    (∀ m ∈ t.requiredModules.getD [], r.has m = true) ∧
    taskWithEnvEval ev flat t = .ok t' := by
  unfold taskAvail at h
  split at h
  · cases h
  · rename_i hv
    split at h
    · cases h
    · rename_i hm
      refine ⟨find_not_none hv, find_not_none hm, ?_⟩
      cases hx : taskWithEnvEval ev flat t with
      | error e => rw [hx] at h; cases h
      | ok x => rw [hx] at h; simp only [Except.map] at h; cases h; rfl

/-- "missing variable": the reported variable is required and not set (and it is the first such) -/
theorem runnable_missingVar {ev : EvalExpr} {flat : Flat} {r : Resolved} {t : Task} {v : String}
    (h : taskAvail ev flat r t = .ok (.missingVar v)) :
    v ∈ t.requiredVars.getD [] ∧ flat.any (·.1 == v) = false ∧
    ∃ pre post, t.requiredVars.getD [] = pre ++ v :: post ∧ ∀ w ∈ pre, flat.any (·.1 == w) = true := by
  unfold taskAvail at h
  split at h
  · rename_i w hw
    cases h
    exact find_not_some hw
  · split at h
    · cases h
    · cases hx : taskWithEnvEval ev flat t with
      | error e => rw [hx] at h; cases h
      | ok x => rw [hx] at h; simp only [Except.map] at h; cases h

/-- "missing module": all required variables are set, the reported module is required and not
    selected (and it is the first such) -/
theorem runnable_missingModule {ev : EvalExpr} {flat : Flat} {r : Resolved} {t : Task} {m : String}
    (h : taskAvail ev flat r t = .ok (.missingModule m)) :
    (∀ v ∈ t.requiredVars.getD [], flat.any (·.1 == v) = true) ∧
    m ∈ t.requiredModules.getD [] ∧ r.has m = false ∧
    ∃ pre post, t.requiredModules.getD [] = pre ++ m :: post ∧ ∀ w ∈ pre, r.has w = true := by
  unfold taskAvail at h
  split at h
  · cases h
  · rename_i hv
    split at h
    · rename_i w hw
      cases h
      exact ⟨find_not_none hv, find_not_some hw⟩
    · cases hx : taskWithEnvEval ev flat t with
      | error e => rw [hx] at h; cases h
      | ok x => rw [hx] at h; simp only [Except.map] at h; cases h

/-- converse: with every requirement met the answer is the evaluated task (or its expansion
    error), never `missing…` -/
theorem runnable_of_requirements {ev : EvalExpr} {flat : Flat} {r : Resolved} {t : Task}
    (hv : ∀ v ∈ t.requiredVars.getD [], flat.any (·.1 == v) = true)
    (hm : ∀ m ∈ t.requiredModules.getD [], r.has m = true) :
    taskAvail ev flat r t = (taskWithEnvEval ev flat t).map TaskAvail.ok := by
  unfold taskAvail
  rw [find_not_none_of hv, find_not_none_of hm]

theorem runnable_of_requirements' {ev : EvalExpr} {flat : Flat} {r : Resolved} {t : Task}
    (hv : ∀ v ∈ t.requiredVars.getD [], flat.any (·.1 == v) = true)
    (hm : ∀ m ∈ t.requiredModules.getD [], r.has m = true) :
    (∃ t', taskAvail ev flat r t = .ok (.ok t')) ∨ (∃ e, taskAvail ev flat r t = .error e) := by
  rw [runnable_of_requirements hv hm]
  cases taskWithEnvEval ev flat t with
  | error e => exact .inr ⟨e, rfl⟩
  | ok x => exact .inl ⟨x, rfl⟩

/-- **C16.1** a task is runnable for a build exactly when all its `required_vars` are set in the
    build's environment, all its `required_modules` are selected (and its strings expand) -/
theorem runnable_iff (ev : EvalExpr) (flat : Flat) (r : Resolved) (t : Task) :
    (∃ t', taskAvail ev flat r t = .ok (.ok t')) ↔
      (∀ v ∈ t.requiredVars.getD [], flat.any (·.1 == v) = true) ∧
      (∀ m ∈ t.requiredModules.getD [], r.has m = true) ∧
      ∃ t', taskWithEnvEval ev flat t = .ok t' := by
  constructor
  · rintro ⟨t', h⟩
    obtain ⟨a, b, c⟩ := runnable_ok h
    exact ⟨a, b, t', c⟩
  · rintro ⟨hv, hm, t', h⟩
    exact ⟨t', by rw [runnable_of_requirements hv hm, h]; rfl⟩

/-- the three answers are exhaustive and exclusive descriptions of the requirement state -/
theorem not_runnable_iff (ev : EvalExpr) (flat : Flat) (r : Resolved) (t : Task) :
    ((∃ v, taskAvail ev flat r t = .ok (.missingVar v)) ↔
        ¬ (∀ v ∈ t.requiredVars.getD [], flat.any (·.1 == v) = true)) ∧
    ((∃ m, taskAvail ev flat r t = .ok (.missingModule m)) ↔
        (∀ v ∈ t.requiredVars.getD [], flat.any (·.1 == v) = true) ∧
        ¬ (∀ m ∈ t.requiredModules.getD [], r.has m = true)) := by
  refine ⟨⟨?_, ?_⟩, ⟨?_, ?_⟩⟩
  · rintro ⟨v, h⟩ hall
    obtain ⟨hv, hn, _⟩ := runnable_missingVar h
    rw [hall v hv] at hn; cases hn
  · intro hn
    unfold taskAvail
    split
    · exact ⟨_, rfl⟩
    · rename_i hv
      exact absurd (find_not_none hv) hn
  · rintro ⟨m, h⟩
    obtain ⟨hv, hm, hn, _⟩ := runnable_missingModule h
    refine ⟨hv, fun hall => ?_⟩
    rw [hall m hm] at hn; cases hn
  · rintro ⟨hv, hn⟩
    unfold taskAvail
    rw [find_not_none_of hv]
    dsimp only
    split
    · exact ⟨_, rfl⟩
    · rename_i hm
      exact absurd (find_not_none hm) hn

example : taskAvail (fun b => .ok b) [("PORT", "1")] ⟨[], []⟩ { cmd := [], requiredVars := some ["PORT"] } =
    .ok (.ok { cmd := [], requiredVars := some ["PORT"] }) := by
  rfl

/-! ## the pieces of `runBuild … (some (t, args))` -/

/-- the selected builds that define the task -/
def cands (a : Args) (builds : List BuildInfo) (t : String) : List BuildInfo :=
  builds.filter (fun i => selected a i && (taskOf i t).isSome)

/-- the selected builds for which the task is runnable, with the task -/
def runnable (a : Args) (builds : List BuildInfo) (t : String) : List (BuildInfo × Task) :=
  (cands a builds t).filterMap (fun i => match taskOf i t with | some (.ok t) => some (i, t) | _ => none)

/-- the `out` of the runnable matches with `build: true`, in order -/
def buildTargets (a : Args) (builds : List BuildInfo) (t : String) : List String :=
  ((runnable a builds t).filter (fun (_, t) => t.build)).map (fun (i, _) => i.out)

/-- the (at most one) ninja invocation before the tasks -/
def pre (st : Settings) (a : Args) (fl : Flags) (builds : List BuildInfo) (t : String) : List Spawn :=
  if !(buildTargets a builds t).isEmpty && !fl.generateOnly
  then [.ninja (ninjaArgv (ninjaFile st a.mode) (fl.verbose > 0) fl.jobs none (some (buildTargets a builds t)))]
  else []

/-- `laze` refuses: several selected builds define the task and `--multiple-tasks` is not given -/
def refused (a : Args) (fl : Flags) (builds : List BuildInfo) (t : String) : Prop :=
  (cands a builds t).length > 1 ∧ fl.multiple = false

theorem runBuild_task (st : Settings) (a : Args) (fl : Flags) (builds : List BuildInfo) (t : String)
    (args : List String) (ninjaRc : Nat) (cmdFails : String → Bool) :
    runBuild st a fl builds (some (t, args)) ninjaRc cmdFails =
      if (runnable a builds t).isEmpty then ([], 1)
      else if (cands a builds t).length > 1 && !fl.multiple then ([], 1)
      else if !(pre st a fl builds t).isEmpty && ninjaRc != 0 then (pre st a fl builds t, 1)
      else (pre st a fl builds t ++
              (runTasks st.projectRoot args cmdFails fl.keepGoing ((runnable a builds t).map (·.2)) 0).1,
            if (runTasks st.projectRoot args cmdFails fl.keepGoing ((runnable a builds t).map (·.2)) 0).2 > 0
            then 1 else 0) := by
  rfl

theorem mem_cands {a : Args} {builds : List BuildInfo} {t : String} {i : BuildInfo} :
    i ∈ cands a builds t ↔ i ∈ builds ∧ selected a i = true ∧ (taskOf i t).isSome = true := by
  simp [cands, List.mem_filter]

/-- the runnable matches are exactly the selected builds whose task table says `ok` -/
theorem mem_runnable {a : Args} {builds : List BuildInfo} {t : String} {i : BuildInfo} {tk : Task} :
    (i, tk) ∈ runnable a builds t ↔ i ∈ builds ∧ selected a i = true ∧ taskOf i t = some (.ok tk) := by
  unfold runnable
  rw [List.mem_filterMap]
  constructor
  · rintro ⟨j, hj, hm⟩
    obtain ⟨hb, hs, _⟩ := mem_cands.mp hj
    split at hm
    · rename_i t' ht
      cases hm
      exact ⟨hb, hs, ht⟩
    · cases hm
  · rintro ⟨hb, hs, ht⟩
    refine ⟨i, mem_cands.mpr ⟨hb, hs, by simp [ht]⟩, ?_⟩
    rw [ht]

theorem runnable_length_le (a : Args) (builds : List BuildInfo) (t : String) :
    (runnable a builds t).length ≤ (cands a builds t).length :=
  List.length_filterMap_le _ _

theorem mem_buildTargets {a : Args} {builds : List BuildInfo} {t : String} {p : String} :
    p ∈ buildTargets a builds t ↔
      ∃ i ∈ builds, selected a i = true ∧ ∃ tk, taskOf i t = some (.ok tk) ∧ tk.build = true ∧ p = i.out := by
  unfold buildTargets
  rw [List.mem_map]
  constructor
  · rintro ⟨⟨i, tk⟩, hm, rfl⟩
    rw [List.mem_filter] at hm
    obtain ⟨hb, hs, ht⟩ := mem_runnable.mp hm.1
    exact ⟨i, hb, hs, tk, ht, hm.2, rfl⟩
  · rintro ⟨i, hb, hs, tk, ht, hbuild, rfl⟩
    exact ⟨(i, tk), List.mem_filter.mpr ⟨mem_runnable.mpr ⟨hb, hs, ht⟩, hbuild⟩, rfl⟩

/-! ## `taskSpawns` and `runTasks` -/

/-- `$$` → `$` on strings -/
def unesc (c : String) : String := String.ofList (unescapeDollar c.toList)

/-- the shell process of one command of a task -/
def shOf (root : String) (t : Task) (args : List String) (c : String) : Spawn :=
  .sh (match t.workdir with | some w => pathPush root w | none => root)
    ((t.export.getD []).filterMap (fun e => e.content.map (fun v => (e.var, v))))
    (unesc c) args

/-- a spawned process that failed: a shell command for which `cmdFails` holds -/
def spawnFails (cmdFails : String → Bool) : Spawn → Bool
  | .sh _ _ cmd _ => cmdFails cmd
  | .ninja _ => false

/-- a task fails iff one of its (unescaped) commands fails -/
def taskFails (cmdFails : String → Bool) (t : Task) : Bool := t.cmd.any (fun c => cmdFails (unesc c))

theorem taskSpawns_cons (root : String) (t : Task) (args : List String) (cf : String → Bool) (c : String)
    (rest : List String) :
    taskSpawns root t args cf (c :: rest) =
      if cf (unesc c) then ([shOf root t args c], false)
      else (shOf root t args c :: (taskSpawns root t args cf rest).1, (taskSpawns root t args cf rest).2) := by
  rfl

/-- **C16.5 (commands)** the commands of a task are run in order up to and including the first
    failing one; the task succeeds iff no command fails -/
theorem taskSpawns_spec (root : String) (t : Task) (args : List String) (cf : String → Bool) (cmds : List String) :
    (taskSpawns root t args cf cmds).1 =
        (cmds.take (cmds.findIdx (fun c => cf (unesc c)) + 1)).map (shOf root t args) ∧
    (taskSpawns root t args cf cmds).2 = !cmds.any (fun c => cf (unesc c)) := by
  induction cmds with
  | nil => simp [taskSpawns]
  | cons c rest ih =>
    rw [taskSpawns_cons]
    by_cases h : cf (unesc c) = true
    · simp [h, List.findIdx_cons]
    · simp only [Bool.not_eq_true] at h
      simp [h, List.findIdx_cons, ih.1, ih.2]

theorem taskSpawns_any_fails (root : String) (t : Task) (args : List String) (cf : String → Bool) (cmds : List String) :
    (taskSpawns root t args cf cmds).1.any (spawnFails cf) = cmds.any (fun c => cf (unesc c)) := by
  induction cmds with
  | nil => simp [taskSpawns]
  | cons c rest ih =>
    rw [taskSpawns_cons]
    by_cases h : cf (unesc c) = true
    · simp [h, shOf, spawnFails]
    · simp only [Bool.not_eq_true] at h
      simp [h, shOf, spawnFails, ih]

theorem taskSpawns_mem {root : String} {t : Task} {args : List String} {cf : String → Bool} {cmds : List String}
    {s : Spawn} (h : s ∈ (taskSpawns root t args cf cmds).1) : ∃ c ∈ cmds, s = shOf root t args c := by
  rw [(taskSpawns_spec root t args cf cmds).1, List.mem_map] at h
  obtain ⟨c, hc, rfl⟩ := h
  exact ⟨c, List.mem_of_mem_take hc, rfl⟩

theorem runTasks_cons (root : String) (args : List String) (cf : String → Bool) (k : Nat) (t : Task)
    (rest : List Task) (e : Nat) :
    runTasks root args cf k (t :: rest) e =
      if (taskSpawns root t args cf t.cmd).2 then
        ((taskSpawns root t args cf t.cmd).1 ++ (runTasks root args cf k rest e).1, (runTasks root args cf k rest e).2)
      else if k > 0 && e + 1 ≥ k then ((taskSpawns root t args cf t.cmd).1, e + 1)
      else ((taskSpawns root t args cf t.cmd).1 ++ (runTasks root args cf k rest (e + 1)).1,
            (runTasks root args cf k rest (e + 1)).2) := by
  rfl

/-- the keep-going rule with an arbitrary initial error count -/
theorem runTasks_spec (root : String) (args : List String) (cf : String → Bool) (k : Nat) (tasks : List Task) (e : Nat) :
    ∃ n, n ≤ tasks.length ∧
      (runTasks root args cf k tasks e).1 =
        (tasks.take n).flatMap (fun t => (taskSpawns root t args cf t.cmd).1) ∧
      (runTasks root args cf k tasks e).2 = e + (tasks.take n).countP (taskFails cf) ∧
      ((k = 0 ∨ e + tasks.countP (taskFails cf) < k) → n = tasks.length) ∧
      (e < k → k ≤ e + tasks.countP (taskFails cf) →
        e + (tasks.take n).countP (taskFails cf) = k ∧
        ∀ m, m < n → e + (tasks.take m).countP (taskFails cf) < k) := by
  induction tasks generalizing e with
  | nil => exact ⟨0, by simp [runTasks]; omega⟩
  | cons t rest ih =>
    rw [runTasks_cons]
    have hok : (taskSpawns root t args cf t.cmd).2 = !taskFails cf t := (taskSpawns_spec root t args cf t.cmd).2
    by_cases hf : taskFails cf t = true
    · rw [hok, hf]
      simp only [Bool.not_true, Bool.false_eq_true, if_false]
      by_cases hstop : (decide (k > 0) && decide (e + 1 ≥ k)) = true
      · rw [if_pos hstop]
        simp only [Bool.and_eq_true, decide_eq_true_eq] at hstop
        refine ⟨1, by simp, by simp, by simp [hf], ?_, ?_⟩
        · rw [List.countP_cons_of_pos hf]
          intro h; omega
        · intro h1 h2
          refine ⟨by simp [hf]; omega, ?_⟩
          intro m hm
          have : m = 0 := by omega
          subst this
          simpa using h1
      · rw [if_neg hstop]
        simp only [Bool.and_eq_true, decide_eq_true_eq] at hstop
        obtain ⟨n, hn, h1, h2, h3, h4⟩ := ih (e + 1)
        refine ⟨n + 1, by simp; omega, by simp [h1], ?_, ?_, ?_⟩
        · rw [h2, List.take_succ_cons, List.countP_cons_of_pos hf]; omega
        · rw [List.countP_cons_of_pos hf]
          intro h
          have : n = rest.length := h3 (by omega)
          simp; omega
        · rw [List.countP_cons_of_pos hf]
          intro ha hb
          obtain ⟨h5, h6⟩ := h4 (by omega) (by omega)
          refine ⟨by rw [List.take_succ_cons, List.countP_cons_of_pos hf]; omega, ?_⟩
          intro m hm
          cases m with
          | zero => simpa using ha
          | succ m' =>
            rw [List.take_succ_cons, List.countP_cons_of_pos hf]
            have := h6 m' (by omega)
            omega
    · rw [hok]
      simp only [Bool.not_eq_true] at hf
      rw [hf]
      simp only [Bool.not_false, if_true]
      have hf' : ¬ taskFails cf t = true := by simp [hf]
      obtain ⟨n, hn, h1, h2, h3, h4⟩ := ih e
      refine ⟨n + 1, by simp; omega, by simp [h1], ?_, ?_, ?_⟩
      · rw [h2, List.take_succ_cons, List.countP_cons_of_neg hf']
      · rw [List.countP_cons_of_neg hf']
        intro h
        have : n = rest.length := h3 h
        simp; omega
      · rw [List.countP_cons_of_neg hf']
        intro ha hb
        obtain ⟨h5, h6⟩ := h4 ha hb
        refine ⟨by rw [List.take_succ_cons, List.countP_cons_of_neg hf']; omega, ?_⟩
        intro m hm
        cases m with
        | zero => simpa using ha
        | succ m' =>
          rw [List.take_succ_cons, List.countP_cons_of_neg hf']
          exact h6 m' (by omega)

/-- **C16.5** `--keep-going k`: the tasks executed are a prefix `tasks.take n` of the task list;
    `errors` is the number of failing tasks in it; the prefix is everything when `k = 0` or fewer
    than `k` tasks fail, and otherwise the shortest prefix containing `k` failing tasks. -/
theorem keep_going (root : String) (args : List String) (cf : String → Bool) (k : Nat) (tasks : List Task) :
    ∃ n, n ≤ tasks.length ∧
      (runTasks root args cf k tasks 0).1 =
        (tasks.take n).flatMap (fun t => (taskSpawns root t args cf t.cmd).1) ∧
      (runTasks root args cf k tasks 0).2 = (tasks.take n).countP (taskFails cf) ∧
      ((k = 0 ∨ tasks.countP (taskFails cf) < k) → n = tasks.length) ∧
      (0 < k → k ≤ tasks.countP (taskFails cf) →
        (tasks.take n).countP (taskFails cf) = k ∧
        ∀ m, m < n → (tasks.take m).countP (taskFails cf) < k) := by
  obtain ⟨n, hn, h1, h2, h3, h4⟩ := runTasks_spec root args cf k tasks 0
  refine ⟨n, hn, h1, by simpa using h2, by simpa using h3, ?_⟩
  intro ha hb
  simpa using h4 ha (by simpa using hb)

/-- every process of `runTasks` is a shell command of one of the tasks -/
theorem runTasks_mem {root : String} {args : List String} {cf : String → Bool} {k : Nat} {tasks : List Task} {e : Nat}
    {s : Spawn} (h : s ∈ (runTasks root args cf k tasks e).1) :
    ∃ t ∈ tasks, ∃ c ∈ t.cmd, s = shOf root t args c := by
  obtain ⟨n, _, h1, _⟩ := runTasks_spec root args cf k tasks e
  rw [h1, List.mem_flatMap] at h
  obtain ⟨t, ht, hs⟩ := h
  exact ⟨t, List.mem_of_mem_take ht, taskSpawns_mem hs⟩

theorem runTasks_no_ninja {root : String} {args : List String} {cf : String → Bool} {k : Nat} {tasks : List Task} {e : Nat}
    {s : Spawn} (h : s ∈ (runTasks root args cf k tasks e).1) (argv : List String) : s ≠ .ninja argv := by
  obtain ⟨t, _, c, _, rfl⟩ := runTasks_mem h
  simp [shOf]

/-- the error count exceeds its initial value iff some spawned command failed -/
theorem runTasks_errors (root : String) (args : List String) (cf : String → Bool) (k : Nat) (tasks : List Task) (e : Nat) :
    (runTasks root args cf k tasks e).1.any (spawnFails cf) = decide ((runTasks root args cf k tasks e).2 > e) := by
  obtain ⟨n, _, h1, h2, _⟩ := runTasks_spec root args cf k tasks e
  rw [h1, h2]
  rw [Bool.eq_iff_iff]
  simp only [List.any_flatMap, taskSpawns_any_fails, List.any_eq_true, decide_eq_true_eq]
  rw [show (e + List.countP (taskFails cf) (List.take n tasks) > e) ↔
      0 < List.countP (taskFails cf) (List.take n tasks) by omega, List.countP_pos_iff]
  simp [taskFails]

example : runTasks "" [] (fun c => c == "false") 1
    [{ cmd := ["true", "false", "echo"] }, { cmd := ["echo"] }] 0 =
    ([.sh "" [] "true" [], .sh "" [] "false" []], 1) := by decide

example : runTasks "" [] (fun c => c == "false") 0
    [{ cmd := ["true", "false", "echo"] }, { cmd := ["echo $$x"] }] 0 =
    ([.sh "" [] "true" [], .sh "" [] "false" [], .sh "" [] "echo $x" []], 1) := by decide

/-! ## 2. which tasks are run -/

/-- **C16.2** every shell process of `laze build <task>` is a command of the task of a build of the
    generated file that is selected by `--builders`/`--apps` and for which the task is runnable:
    the command line is the `$$`→`$` form of one of the task's commands, the working directory and
    the environment are the task's, the arguments are the ones given on the command line. -/
theorem runs_only_selected_runnable {st : Settings} {a : Args} {fl : Flags} {builds : List BuildInfo} {t : String}
    {args : List String} {ninjaRc : Nat} {cmdFails : String → Bool} {cwd : String} {env : List (String × String)}
    {cmd : String} {as : List String}
    (h : Spawn.sh cwd env cmd as ∈ (runBuild st a fl builds (some (t, args)) ninjaRc cmdFails).1) :
    ∃ i ∈ builds, selected a i = true ∧ ∃ tk, taskOf i t = some (.ok tk) ∧ ∃ c ∈ tk.cmd,
      cmd = String.ofList (unescapeDollar c.toList) ∧
      cwd = (match tk.workdir with | some w => pathPush st.projectRoot w | none => st.projectRoot) ∧
      env = (tk.export.getD []).filterMap (fun e => e.content.map (fun v => (e.var, v))) ∧
      as = args := by
  have hpre : ∀ s ∈ pre st a fl builds t, s ≠ Spawn.sh cwd env cmd as := by
    intro s hs
    unfold pre at hs
    split at hs
    · simp at hs; subst hs; simp
    · simp at hs
  rw [runBuild_task] at h
  split at h
  · simp at h
  · split at h
    · simp at h
    · split at h
      · exact absurd rfl (hpre _ h)
      · dsimp only at h
        rw [List.mem_append] at h
        rcases h with h | h
        · exact absurd rfl (hpre _ h)
        · obtain ⟨tk, htk, c, hc, heq⟩ := runTasks_mem h
          rw [List.mem_map] at htk
          obtain ⟨⟨i, tk'⟩, hm, rfl⟩ := htk
          obtain ⟨hb, hs, ht⟩ := mem_runnable.mp hm
          unfold shOf unesc at heq
          injection heq with h1 h2 h3 h4
          exact ⟨i, hb, hs, tk', ht, c, hc, h3, h1, h2, h4⟩

/-! ## 3. refusals -/

/-- **C16.3a** several selected builds define the task and `--multiple-tasks` is not given:
    nothing is spawned, exit status 1 -/
theorem refuses_several (st : Settings) (a : Args) (fl : Flags) (builds : List BuildInfo) (t : String)
    (args : List String) (ninjaRc : Nat) (cmdFails : String → Bool)
    (hseveral : (builds.filter (fun i => selected a i && (taskOf i t).isSome)).length > 1)
    (hm : fl.multiple = false) :
    runBuild st a fl builds (some (t, args)) ninjaRc cmdFails = ([], 1) := by
  rw [runBuild_task]
  split
  · rfl
  · have : (cands a builds t).length > 1 := hseveral
    simp [this, hm]

/-- in particular: several *runnable* matches are refused -/
theorem refuses_several_runnable (st : Settings) (a : Args) (fl : Flags) (builds : List BuildInfo) (t : String)
    (args : List String) (ninjaRc : Nat) (cmdFails : String → Bool)
    (hseveral : (runnable a builds t).length > 1) (hm : fl.multiple = false) :
    runBuild st a fl builds (some (t, args)) ninjaRc cmdFails = ([], 1) :=
  refuses_several st a fl builds t args ninjaRc cmdFails
    (Nat.lt_of_lt_of_le hseveral (runnable_length_le a builds t)) hm

/-- **C16.3b** no selected build has the task runnable: nothing is spawned, exit status 1 -/
theorem none_runnable_fails (st : Settings) (a : Args) (fl : Flags) (builds : List BuildInfo) (t : String)
    (args : List String) (ninjaRc : Nat) (cmdFails : String → Bool)
    (hnone : ∀ i ∈ builds, selected a i = true → ∀ tk, taskOf i t ≠ some (.ok tk)) :
    runBuild st a fl builds (some (t, args)) ninjaRc cmdFails = ([], 1) := by
  have : runnable a builds t = [] := by
    apply List.eq_nil_iff_forall_not_mem.mpr
    rintro ⟨i, tk⟩ hm
    obtain ⟨hb, hs, ht⟩ := mem_runnable.mp hm
    exact hnone i hb hs tk ht
  rw [runBuild_task, this]
  rfl

/-- with exactly the non-refusal conditions something is always attempted: the refusal cases are
    the only ones with the empty spawn list, unless there is nothing to execute at all -/
theorem spawns_nonempty_not_refused {st : Settings} {a : Args} {fl : Flags} {builds : List BuildInfo} {t : String}
    {args : List String} {ninjaRc : Nat} {cmdFails : String → Bool}
    (h : (runBuild st a fl builds (some (t, args)) ninjaRc cmdFails).1 ≠ []) :
    runnable a builds t ≠ [] ∧ ¬ refused a fl builds t := by
  rw [runBuild_task] at h
  split at h
  · exact absurd rfl h
  · rename_i hr
    split at h
    · exact absurd rfl h
    · rename_i hc
      refine ⟨by simpa using hr, ?_⟩
      rintro ⟨h1, h2⟩
      apply hc
      simp [h1, h2]

/-! ## 4. the app is built first -/

theorem runBuild_not_refused {st : Settings} {a : Args} {fl : Flags} {builds : List BuildInfo} {t : String}
    {args : List String} {ninjaRc : Nat} {cmdFails : String → Bool}
    (hr : runnable a builds t ≠ []) (hnr : ¬ refused a fl builds t) :
    runBuild st a fl builds (some (t, args)) ninjaRc cmdFails =
      if !(pre st a fl builds t).isEmpty && ninjaRc != 0 then (pre st a fl builds t, 1)
      else (pre st a fl builds t ++
              (runTasks st.projectRoot args cmdFails fl.keepGoing ((runnable a builds t).map (·.2)) 0).1,
            if (runTasks st.projectRoot args cmdFails fl.keepGoing ((runnable a builds t).map (·.2)) 0).2 > 0
            then 1 else 0) := by
  rw [runBuild_task]
  have h1 : (runnable a builds t).isEmpty = false := by simpa using hr
  have h2 : (decide ((cands a builds t).length > 1) && !fl.multiple) = false := by
    unfold refused at hnr
    cases hm : fl.multiple <;> simp_all
  rw [h1, h2]
  rfl

/-- **C16.4a** unless laze refuses: if some runnable match has `build: true` and `-G` is not given,
    the first process is `ninja -f <file> [-v] [-j n] <targets>` where the targets are exactly the
    `out` of the runnable matches with `build: true`, in order; no other ninja process follows; and
    if ninja fails nothing else is spawned and the status is 1. -/
theorem build_first' {st : Settings} {a : Args} {fl : Flags} {builds : List BuildInfo} {t : String}
    {args : List String} {ninjaRc : Nat} {cmdFails : String → Bool}
    (hnr : ¬ refused a fl builds t)
    (hb : ∃ p ∈ runnable a builds t, p.2.build = true) (hG : fl.generateOnly = false) :
    ∃ rest, (runBuild st a fl builds (some (t, args)) ninjaRc cmdFails).1 =
        .ninja (ninjaArgv (ninjaFile st a.mode) (fl.verbose > 0) fl.jobs none
          (some (((runnable a builds t).filter (fun p => p.2.build)).map (fun p => p.1.out)))) :: rest ∧
      (∀ s ∈ rest, ∀ argv, s ≠ .ninja argv) ∧
      (ninjaRc ≠ 0 → rest = [] ∧ (runBuild st a fl builds (some (t, args)) ninjaRc cmdFails).2 = 1) := by
  obtain ⟨p, hp, hpb⟩ := hb
  have hr : runnable a builds t ≠ [] := List.ne_nil_of_mem hp
  have hbt : buildTargets a builds t ≠ [] := by
    apply List.ne_nil_of_mem (a := p.1.out)
    exact List.mem_map.mpr ⟨p, List.mem_filter.mpr ⟨hp, hpb⟩, rfl⟩
  have hpre : pre st a fl builds t =
      [.ninja (ninjaArgv (ninjaFile st a.mode) (fl.verbose > 0) fl.jobs none (some (buildTargets a builds t)))] := by
    unfold pre
    rw [if_pos]
    simp [hG, hbt]
  rw [runBuild_not_refused hr hnr, hpre]
  by_cases hrc : ninjaRc = 0
  · subst hrc
    refine ⟨(runTasks st.projectRoot args cmdFails fl.keepGoing ((runnable a builds t).map (·.2)) 0).1,
      rfl, ?_, fun h => absurd rfl h⟩
    intro s hs argv
    exact runTasks_no_ninja hs argv
  · have hc : (!([Spawn.ninja (ninjaArgv (ninjaFile st a.mode) (fl.verbose > 0) fl.jobs none
        (some (buildTargets a builds t)))] : List Spawn).isEmpty && ninjaRc != 0) = true := by
      simp [hrc]
    rw [if_pos hc]
    exact ⟨[], rfl, by simp, fun _ => ⟨rfl, rfl⟩⟩

/-- **C16.4a** (as requested: "if `runBuild` spawns anything") -/
theorem build_first {st : Settings} {a : Args} {fl : Flags} {builds : List BuildInfo} {t : String}
    {args : List String} {ninjaRc : Nat} {cmdFails : String → Bool}
    (hne : (runBuild st a fl builds (some (t, args)) ninjaRc cmdFails).1 ≠ [])
    (hb : ∃ p ∈ runnable a builds t, p.2.build = true) (hG : fl.generateOnly = false) :
    ∃ rest, (runBuild st a fl builds (some (t, args)) ninjaRc cmdFails).1 =
        .ninja (ninjaArgv (ninjaFile st a.mode) (fl.verbose > 0) fl.jobs none
          (some (((runnable a builds t).filter (fun p => p.2.build)).map (fun p => p.1.out)))) :: rest ∧
      (∀ s ∈ rest, ∀ argv, s ≠ .ninja argv) ∧
      (ninjaRc ≠ 0 → rest = [] ∧ (runBuild st a fl builds (some (t, args)) ninjaRc cmdFails).2 = 1) :=
  build_first' (spawns_nonempty_not_refused hne).2 hb hG

/-- **C16.4b** with `build: false` for every runnable match, or with `-G`, ninja is not run -/
theorem no_build {st : Settings} {a : Args} {fl : Flags} {builds : List BuildInfo} {t : String}
    {args : List String} {ninjaRc : Nat} {cmdFails : String → Bool}
    (h : (∀ p ∈ runnable a builds t, p.2.build = false) ∨ fl.generateOnly = true) :
    ∀ s ∈ (runBuild st a fl builds (some (t, args)) ninjaRc cmdFails).1, ∀ argv, s ≠ .ninja argv := by
  have hpre : pre st a fl builds t = [] := by
    unfold pre
    rw [if_neg]
    rcases h with h | h
    · have : buildTargets a builds t = [] := by
        unfold buildTargets
        rw [List.map_eq_nil_iff, List.filter_eq_nil_iff]
        intro p hp
        simp [h p hp]
      simp [this]
    · simp [h]
  intro s hs argv
  rw [runBuild_task, hpre] at hs
  split at hs
  · simp at hs
  · split at hs
    · simp at hs
    · simp only [List.isEmpty_nil, Bool.not_true, Bool.false_and, Bool.false_eq_true, if_false,
        List.nil_append] at hs
      exact runTasks_no_ninja hs argv

/-- ninja is spawned by `laze build <task>` iff laze does not refuse, some runnable match wants the
    app built and `-G` is not given -/
theorem ninja_spawned_iff {st : Settings} {a : Args} {fl : Flags} {builds : List BuildInfo} {t : String}
    {args : List String} {ninjaRc : Nat} {cmdFails : String → Bool} :
    (∃ argv, Spawn.ninja argv ∈ (runBuild st a fl builds (some (t, args)) ninjaRc cmdFails).1) ↔
      ¬ refused a fl builds t ∧ (∃ p ∈ runnable a builds t, p.2.build = true) ∧ fl.generateOnly = false := by
  constructor
  · rintro ⟨argv, h⟩
    have hne : (runBuild st a fl builds (some (t, args)) ninjaRc cmdFails).1 ≠ [] := List.ne_nil_of_mem h
    refine ⟨(spawns_nonempty_not_refused hne).2, ?_⟩
    by_cases hb : ∃ p ∈ runnable a builds t, p.2.build = true
    · refine ⟨hb, ?_⟩
      cases hG : fl.generateOnly
      · rfl
      · exact absurd rfl (no_build (.inr hG) _ h argv)
    · have : ∀ p ∈ runnable a builds t, p.2.build = false := by
        intro p hp
        cases hpb : p.2.build
        · rfl
        · exact absurd ⟨p, hp, hpb⟩ hb
      exact absurd rfl (no_build (.inl this) _ h argv)
  · rintro ⟨hnr, hb, hG⟩
    obtain ⟨rest, h, _⟩ := build_first' (st := st) (args := args) (ninjaRc := ninjaRc) (cmdFails := cmdFails) hnr hb hG
    exact ⟨_, by rw [h]; exact List.mem_cons_self⟩

/-! ## 6. exit status -/

/-- the status is 0 or 1 (for `laze build` with or without a task) -/
theorem exit_code_01 (st : Settings) (a : Args) (fl : Flags) (builds : List BuildInfo)
    (task : Option (String × List String)) (ninjaRc : Nat) (cmdFails : String → Bool) :
    (runBuild st a fl builds task ninjaRc cmdFails).2 = 0 ∨ (runBuild st a fl builds task ninjaRc cmdFails).2 = 1 := by
  cases task with
  | none =>
    unfold runBuild
    dsimp only
    split
    · exact .inl rfl
    · split
      · exact .inl rfl
      · dsimp only
        split
        · exact .inl rfl
        · exact .inr rfl
  | some p =>
    obtain ⟨t, args⟩ := p
    rw [runBuild_task]
    split
    · exact .inr rfl
    · split
      · exact .inr rfl
      · split
        · exact .inr rfl
        · dsimp only
          split
          · exact .inr rfl
          · exact .inl rfl

/-- **C16.6** `laze build <task>` exits non-zero iff it refuses (no runnable match / several
    matches without `--multiple-tasks`), or the ninja process it spawned failed, or some spawned
    task command failed. -/
theorem exit_code (st : Settings) (a : Args) (fl : Flags) (builds : List BuildInfo) (t : String)
    (args : List String) (ninjaRc : Nat) (cmdFails : String → Bool) :
    (runBuild st a fl builds (some (t, args)) ninjaRc cmdFails).2 ≠ 0 ↔
      (runnable a builds t = [] ∨ refused a fl builds t) ∨
      ((∃ argv, Spawn.ninja argv ∈ (runBuild st a fl builds (some (t, args)) ninjaRc cmdFails).1) ∧ ninjaRc ≠ 0) ∨
      (runBuild st a fl builds (some (t, args)) ninjaRc cmdFails).1.any (spawnFails cmdFails) = true := by
  by_cases hr : runnable a builds t = []
  · have : runBuild st a fl builds (some (t, args)) ninjaRc cmdFails = ([], 1) := by
      rw [runBuild_task, hr]; rfl
    rw [this]
    simp [hr]
  by_cases hnr : refused a fl builds t
  · have : runBuild st a fl builds (some (t, args)) ninjaRc cmdFails = ([], 1) :=
      refuses_several st a fl builds t args ninjaRc cmdFails hnr.1 hnr.2
    rw [this]
    simp [hnr]
  have hpre : ∀ s ∈ pre st a fl builds t, spawnFails cmdFails s = false := by
    intro s hs
    unfold pre at hs
    split at hs
    · simp at hs; subst hs; rfl
    · simp at hs
  have hpre_any : (pre st a fl builds t).any (spawnFails cmdFails) = false := by
    rw [List.any_eq_false]
    intro s hs
    simp [hpre s hs]
  have hpre_ninja : (pre st a fl builds t).isEmpty = false → ∃ argv, Spawn.ninja argv ∈ pre st a fl builds t := by
    intro h
    unfold pre at h ⊢
    split
    · exact ⟨_, List.mem_singleton.mpr rfl⟩
    · rename_i hc; rw [if_neg hc] at h; simp at h
  rw [runBuild_not_refused hr hnr]
  by_cases hfail : (!(pre st a fl builds t).isEmpty && ninjaRc != 0) = true
  · rw [if_pos hfail]
    simp only [Bool.and_eq_true, Bool.not_eq_true', bne_iff_ne, ne_eq] at hfail
    constructor
    · intro _
      exact .inr (.inl ⟨hpre_ninja hfail.1, hfail.2⟩)
    · intro _; simp
  · rw [if_neg hfail]
    dsimp only
    rw [List.any_append, hpre_any, Bool.false_or, runTasks_errors]
    constructor
    · intro h
      refine .inr (.inr ?_)
      split at h
      · rename_i h0; simpa using h0
      · exact absurd rfl h
    · rintro (h | h | h)
      · rcases h with h | h
        · exact absurd h hr
        · exact absurd h hnr
      · obtain ⟨⟨argv, hm⟩, hrc⟩ := h
        rw [List.mem_append] at hm
        rcases hm with hm | hm
        · exfalso
          apply hfail
          have : (pre st a fl builds t).isEmpty = false := by
            cases hp : pre st a fl builds t with
            | nil => rw [hp] at hm; simp at hm
            | cons x xs => rfl
          simp [this, hrc]
        · exact absurd rfl (runTasks_no_ninja hm argv)
      · have : (runTasks st.projectRoot args cmdFails fl.keepGoing ((runnable a builds t).map (·.2)) 0).2 > 0 := by
          simpa using h
        rw [if_pos this]; simp

/-! ## examples: two builds, the task `flash` runnable for both -/

def exTask (build : Bool) : Task := { cmd := ["flash $${x}", "false", "never"], build := build }

def exBuilds : List BuildInfo :=
  [ { builder := "b1", app := "app", out := "build/out/b1/app/app.elf", modules := [], globalFlat := [],
      moduleFlat := [], tasks := [("flash", .ok (exTask true))], entries := [] },
    { builder := "b2", app := "app", out := "build/out/b2/app/app.elf", modules := [], globalFlat := [],
      moduleFlat := [], tasks := [("flash", .ok (exTask false)), ("debug", .missingVar "PORT")], entries := [] } ]

def exFails (c : String) : Bool := c == "false"

/-- both builds match: refused without `--multiple-tasks` (hypotheses of `refuses_several`) -/
example : (exBuilds.filter (fun i => selected {} i && (taskOf i "flash").isSome)).length > 1 := by decide
example : runBuild {} {} {} exBuilds (some ("flash", [])) 0 exFails = ([], 1) := by decide
/-- `debug` is defined but not runnable: `none_runnable_fails` -/
example : runBuild {} {} {} exBuilds (some ("debug", [])) 0 exFails = ([], 1) := by decide
/-- one builder selected: ninja first (only `b1` has `build: true`), then the commands up to the
    failing one; status 1 -/
example : runBuild {} { builders := .some ["b1"] } {} exBuilds (some ("flash", ["a"])) 0 exFails =
    ([.ninja ["-f", "build/build-global.ninja", "build/out/b1/app/app.elf"],
      .sh "" [] "flash ${x}" ["a"], .sh "" [] "false" ["a"]], 1) := by decide +kernel
/-- `build: false`: no ninja -/
example : runBuild {} { builders := .some ["b2"] } {} exBuilds (some ("flash", [])) 0 exFails =
    ([.sh "" [] "flash ${x}" [], .sh "" [] "false" []], 1) := by decide +kernel
/-- `--multiple-tasks`, `--keep-going 1` (the default): stops after the first failing task -/
example : runBuild {} {} { multiple := true } exBuilds (some ("flash", [])) 0 exFails =
    ([.ninja ["-f", "build/build-global.ninja", "build/out/b1/app/app.elf"],
      .sh "" [] "flash ${x}" [], .sh "" [] "false" []], 1) := by decide +kernel
/-- `--keep-going 0`: both tasks are executed -/
example : runBuild {} {} { multiple := true, keepGoing := 0 } exBuilds (some ("flash", [])) 0 exFails =
    ([.ninja ["-f", "build/build-global.ninja", "build/out/b1/app/app.elf"],
      .sh "" [] "flash ${x}" [], .sh "" [] "false" [],
      .sh "" [] "flash ${x}" [], .sh "" [] "false" []], 1) := by decide +kernel
/-- ninja fails: nothing else is spawned -/
example : runBuild {} {} { multiple := true } exBuilds (some ("flash", [])) 2 exFails =
    ([.ninja ["-f", "build/build-global.ninja", "build/out/b1/app/app.elf"]], 1) := by decide +kernel
/-- the hypotheses of `build_first'` are satisfiable -/
example : ¬ refused {} { multiple := true } exBuilds "flash" ∧
    (∃ p ∈ runnable {} exBuilds "flash", p.2.build = true) := by
  refine ⟨fun h => ?_, ⟨(exBuilds[0]'(by decide), exTask true), ?_, rfl⟩⟩
  · exact absurd h.2 (by decide)
  · exact mem_runnable.mpr ⟨List.mem_cons_self, by decide, rfl⟩

/-- NOTE (behaviour of model and code, weaker than the wording "several *runnable* matches"): two
    selected builds *define* `debug`, it is runnable for only ONE of them (for the other `PORT` is
    missing) — laze still refuses without `--multiple-tasks`, although there is nothing to choose -/
def exBuilds2 : List BuildInfo :=
  [ { builder := "b1", app := "app", out := "o1", modules := [], globalFlat := [],
      moduleFlat := [], tasks := [("debug", .ok (exTask false))], entries := [] },
    { builder := "b2", app := "app", out := "o2", modules := [], globalFlat := [],
      moduleFlat := [], tasks := [("debug", .missingVar "PORT")], entries := [] } ]
example : (runnable {} exBuilds2 "debug").length = 1 ∧
    runBuild {} {} {} exBuilds2 (some ("debug", [])) 0 exFails = ([], 1) ∧
    runBuild {} {} { multiple := true } exBuilds2 (some ("debug", [])) 0 exFails =
      ([.sh "" [] "flash ${x}" [], .sh "" [] "false" []], 1) := by
  refine ⟨rfl, by decide, by decide⟩

end Laze.C16
