import LazeModel.Model.Insights
import LazeModel.Theorems.C19
import LazeModel.Theorems.GenBasic
/-! # C09 (info export) — what `laze build --info-export` writes

The property names the info-export file next to the ninja file. `Model/Insights.lean` states it as a function of the same
inputs as `generate` (so it cannot depend on schedules or hash seeds — what remains is the order of an `IndexMap`, which is
part of the comparison with the implementation). Proved here, for every project and command line:

* `insight_iff_built`   a (builder, app) tuple has a record iff that tuple is configured, and the record's `outfile` is the
                        configured build's output file;
* `moduleInfo_keys`     the `modules` map of a record has exactly one key per module of the build order, in build order;
* `moduleInfo_deps`     the `deps` of a key are the names the module's `selects` refer to (`Dependency::get_name`);
* `insight_modules_perm` so the keys are a permutation of the build's selected modules (`BuildInfo.modules`);
* `insightsOf_last`     grouping by builder then app: the record written LAST for a (builder, app name) is the one found
                        (`IndexMap::insert` replaces), whatever was written before. -/
namespace Laze.C09i
open Laze

/-! ## the pieces of a configured build -/

theorem built_inv {ev st b builder app cli i}
    (h : configureBuild ev st b builder app cli = .ok (.build i)) :
    ∃ rs, resolveTop b builder app cli = .ok rs ∧
      ∃ menvs order,
        moduleEnvs (resolvedOf b builder (appClone app builder cli) rs)
          (globalEnv st b builder app (resolvedOf b builder (appClone app builder cli) rs) cli)
          (resolvedOf b builder (appClone app builder cli) rs).modules = .ok menvs ∧
        buildOrder (menvs.map ModEnv.deps) = some order := by
  unfold configureBuild at h
  split at h
  · cases h
  · split at h
    · cases h
    · split at h
      · cases h
      · rename_i rs hrs
        refine ⟨rs, hrs, ?_⟩
        unfold configureResolved configureSelection at h
        split at h
        · cases h
        · unfold configureWithEnv at h
          split at h
          · cases h
          · split at h
            · cases h
            · rename_i menvs hm
              unfold configureOrdered at h
              split at h
              · cases h
              · rename_i order ho
                exact ⟨menvs, order, hm, ho⟩

theorem buildOrderOf_of_built {ev st b builder app cli i}
    (h : configureBuild ev st b builder app cli = .ok (.build i)) :
    ∃ rs order, resolveTop b builder app cli = .ok rs ∧
      buildOrderOf st b builder app cli (resolvedOf b builder (appClone app builder cli) rs) = some order := by
  obtain ⟨rs, hrs, menvs, order, hm, ho⟩ := built_inv h
  refine ⟨rs, order, hrs, ?_⟩
  unfold buildOrderOf
  rw [hm]
  exact ho

/-- **a record iff configured**, carrying the configured build's output file -/
theorem insight_iff_built {ev st b cli} {c : Context} {m : Module} :
    (∃ x, insightOfTuple ev st b cli c m = some x) ↔ ∃ i, configureBuild ev st b c.name m cli = .ok (.build i) := by
  constructor
  · rintro ⟨x, hx⟩
    unfold insightOfTuple at hx
    split at hx
    · rename_i i hi
      exact ⟨i, hi⟩
    · cases hx
  · rintro ⟨i, hi⟩
    obtain ⟨rs, order, hrs, ho⟩ := buildOrderOf_of_built hi
    unfold insightOfTuple
    rw [hi]
    simp only [hrs, insightOfResolved, ho, Option.map_some]
    exact ⟨_, rfl⟩

theorem insight_fields {ev st b cli} {c : Context} {m : Module} {x : Insight}
    (h : insightOfTuple ev st b cli c m = some x) :
    x.builder = c.name ∧ x.app = m.name ∧
      ∃ i, configureBuild ev st b c.name m cli = .ok (.build i) ∧ x.outfile = i.out := by
  unfold insightOfTuple at h
  split at h
  · rename_i i hi
    split at h
    · cases h
    · rename_i rs hrs
      unfold insightOfResolved at h
      cases ho : buildOrderOf st b c.name m cli (resolvedOf b c.name (appClone m c.name cli) rs) with
      | none => rw [ho] at h; cases h
      | some order =>
        rw [ho] at h
        simp only [Option.map_some, Option.some.injEq] at h
        subst h
        exact ⟨rfl, rfl, i, hi, rfl⟩
  · cases h

/-! ## `module_info` -/

theorem insertKeyed_keys_mem {α} (acc : List (String × α)) (k : String) (v : α) (hk : k ∈ acc.map (·.1)) :
    (insertKeyed acc k v).map (·.1) = acc.map (·.1) := by
  have hany : acc.any (·.1 == k) = true := by
    rw [List.any_eq_true]
    obtain ⟨q, hq, rfl⟩ := List.mem_map.1 hk
    exact ⟨q, hq, by simp⟩
  unfold insertKeyed
  rw [if_pos hany]
  rw [List.map_map]
  apply List.map_congr_left
  intro q _
  by_cases h : q.1 == k
  · simp only [Function.comp, h, if_true]
    exact (beq_iff_eq.1 h).symm
  · simp [Function.comp, h]

theorem insertKeyed_keys_new {α} (acc : List (String × α)) (k : String) (v : α) (hk : k ∉ acc.map (·.1)) :
    (insertKeyed acc k v).map (·.1) = acc.map (·.1) ++ [k] := by
  have hany : acc.any (·.1 == k) = false := by
    rw [Bool.eq_false_iff]
    intro h
    rw [List.any_eq_true] at h
    obtain ⟨q, hq, hqk⟩ := h
    exact hk (List.mem_map.2 ⟨q, hq, beq_iff_eq.1 hqk⟩)
  unfold insertKeyed
  simp [hany]

/-- the fold of `moduleInfoOf` from any accumulator whose keys are disjoint from the (distinct, selected) names still to come -/
theorem moduleInfo_keys_aux (r : Resolved) (order : List Name) (acc : List (Name × List Name))
    (hnd : order.Nodup) (hsel : ∀ n ∈ order, r.has n = true) (hdis : ∀ n ∈ order, n ∉ acc.map (·.1)) :
    (order.foldl (fun acc n => match r.module? n with
      | some m => insertKeyed acc n (moduleDeps m)
      | none => acc) acc).map (·.1) = acc.map (·.1) ++ order := by
  induction order generalizing acc with
  | nil => simp
  | cons n ns ih =>
    rw [List.foldl_cons]
    have hn : r.has n = true := hsel n (List.mem_cons_self)
    obtain ⟨m, hm⟩ : ∃ m, r.module? n = some m := by
      unfold Resolved.has at hn
      unfold Resolved.module?
      rw [List.any_eq_true] at hn
      obtain ⟨x, hx, hxn⟩ := hn
      cases hf : r.modules.find? (·.name == n) with
      | some m => exact ⟨m, rfl⟩
      | none =>
        rw [List.find?_eq_none] at hf
        exact absurd hxn (hf x hx)
    rw [hm]
    have hnew : n ∉ acc.map (·.1) := hdis n (List.mem_cons_self)
    rw [ih _ (List.nodup_cons.1 hnd).2 (fun k hk => hsel k (List.mem_cons_of_mem _ hk))]
    · rw [insertKeyed_keys_new _ _ _ hnew]
      simp
    · intro k hk
      rw [insertKeyed_keys_new _ _ _ hnew]
      intro hmem
      rw [List.mem_append] at hmem
      cases hmem with
      | inl h => exact hdis k (List.mem_cons_of_mem _ hk) h
      | inr h =>
        have : k = n := by simpa using h
        subst this
        exact (List.nodup_cons.1 hnd).1 hk

/-- **one key per module of the build order, in build order** -/
theorem moduleInfo_keys (r : Resolved) (order : List Name) (hnd : order.Nodup) (hsel : ∀ n ∈ order, r.has n = true) :
    (moduleInfoOf r order).map (·.1) = order := by
  unfold moduleInfoOf
  have := moduleInfo_keys_aux r order [] hnd hsel (fun _ _ h => by cases h)
  simp only [List.map_nil, List.nil_append] at this
  exact this

theorem insertKeyed_mem {α} {acc : List (String × α)} {k : String} {v : α} {q : String × α}
    (h : q ∈ insertKeyed acc k v) : q ∈ acc ∨ q = (k, v) := by
  unfold insertKeyed at h
  split at h
  · obtain ⟨p, hp, rfl⟩ := List.mem_map.1 h
    by_cases hpk : p.1 == k
    · simp [hpk]
    · simp [hpk, hp]
  · rw [List.mem_append] at h
    cases h with
    | inl h => exact Or.inl h
    | inr h => exact Or.inr (by simpa using h)

/-- **the deps of a key are the names its module's `selects` refer to** -/
theorem moduleInfo_deps (r : Resolved) (order : List Name) {n : Name} {deps : List Name}
    (h : (n, deps) ∈ moduleInfoOf r order) :
    ∃ m, r.module? n = some m ∧ deps = m.selects.map Dep.name := by
  unfold moduleInfoOf at h
  suffices H : ∀ (acc : List (Name × List Name)),
      (∀ q ∈ acc, ∃ m, r.module? q.1 = some m ∧ q.2 = m.selects.map Dep.name) →
      ∀ q ∈ order.foldl (fun acc n => match r.module? n with
        | some m => insertKeyed acc n (moduleDeps m)
        | none => acc) acc, ∃ m, r.module? q.1 = some m ∧ q.2 = m.selects.map Dep.name from
    H [] (fun _ h => by cases h) (n, deps) h
  clear h
  induction order with
  | nil => intro acc hacc q hq; exact hacc q hq
  | cons k ks ih =>
    intro acc hacc q hq
    rw [List.foldl_cons] at hq
    refine ih _ ?_ q hq
    intro p hp
    cases hk : r.module? k with
    | none => rw [hk] at hp; exact hacc p hp
    | some m =>
      rw [hk] at hp
      cases insertKeyed_mem hp with
      | inl h => exact hacc p h
      | inr h => subst h; exact ⟨m, hk, rfl⟩

/-! ## the record of a configured build lists its selected modules -/

theorem importedModules_sub {r : Resolved} {x y : Module} (h : y ∈ importedModules r x) : y ∈ r.modules := by
  unfold importedModules at h
  obtain ⟨k, _, hk⟩ := List.mem_filterMap.1 h
  unfold Resolved.module? at hk
  exact List.mem_of_find?_eq_some hk

/-- the recorded module names of a configured build: a permutation of `BuildInfo.modules`
    (hypotheses as in `C19.buildOrder_perm`: distinct, real module names — `sel_nodup` (C12) gives the first for every resolver run) -/
theorem insight_modules_perm {ev st b cli} {c : Context} {m : Module} {x : Insight} {i : BuildInfo}
    (hx : insightOfTuple ev st b cli c m = some x)
    (hi : configureBuild ev st b c.name m cli = .ok (.build i))
    (hnd : i.modules.Nodup) (hreal : ∀ n ∈ i.modules, isRealNode n = true) :
    (x.modules.map (·.1)).Perm i.modules := by
  obtain ⟨rs, hrs, menvs, order, hm, ho⟩ := built_inv hi
  have himods : i.modules = (resolvedOf b c.name (appClone m c.name cli) rs).modules.map (·.name) := by
    have := GenBasic.built_modules hi
    obtain ⟨rs', hrs', h⟩ := this
    rw [hrs] at hrs'
    cases hrs'
    exact h
  generalize hR : resolvedOf b c.name (appClone m c.name cli) rs = R at hm himods
  have hspec := C19.moduleEnvs_spec hm
  have hnames : (menvs.map ModEnv.deps).map (·.1.name) = R.modules.map (·.name) := by
    rw [← hspec.1]
    simp [ModEnv.deps, List.map_map, Function.comp]
  have hperm : order.Perm (R.modules.map (·.name)) := by
    rw [← hnames]
    refine C19.buildOrder_perm ho ?_ ?_ ?_
    · rw [hnames, ← himods]; exact hnd
    · intro mb hmb
      apply hreal
      rw [himods, ← hnames]
      exact List.mem_map.2 ⟨mb, hmb, rfl⟩
    · intro mb hmb d hd
      obtain ⟨me, hme, rfl⟩ := List.mem_map.1 hmb
      rw [hnames]
      have := (C19.moduleEnvs_bdeps hm hme d).1 hd
      obtain ⟨y, hy, hyd, _, _⟩ := this
      rw [← hyd]
      exact List.mem_map.2 ⟨y, importedModules_sub hy, rfl⟩
  -- the record
  unfold insightOfTuple at hx
  rw [hi] at hx
  simp only [hrs] at hx
  have hbo : buildOrderOf st b c.name m cli R = some order := by
    unfold buildOrderOf
    rw [hm]
    exact ho
  rw [hR] at hx
  unfold insightOfResolved at hx
  rw [hbo] at hx
  simp only [Option.map_some, Option.some.injEq] at hx
  subst hx
  simp only
  rw [moduleInfo_keys R order (hperm.nodup_iff.2 (himods ▸ hnd))]
  · rw [himods]; exact hperm
  · intro n hn
    have : n ∈ R.modules.map (·.name) := hperm.subset hn
    obtain ⟨y, hy, rfl⟩ := List.mem_map.1 this
    unfold Resolved.has
    rw [List.any_eq_true]
    exact ⟨y, hy, by simp⟩

/-! ## grouping: `Insights::from_builds` -/

def lookup (l : List (Name × List (Name × Insight))) (builder app : Name) : Option Insight :=
  ((l.find? (·.1 == builder)).bind (fun p => p.2.find? (·.1 == app))).map (·.2)

theorem find_insertKeyed_self {α} (acc : List (String × α)) (k : String) (v : α) :
    (insertKeyed acc k v).find? (·.1 == k) = some (k, v) := by
  unfold insertKeyed
  split
  · rename_i hany
    induction acc with
    | nil => simp at hany
    | cons q qs ih =>
      by_cases hq : q.1 == k
      · simp only [List.map_cons, hq, if_true]
        rw [List.find?_cons_of_pos (by simp)]
      · have : qs.any (·.1 == k) = true := by simpa [hq] using hany
        simp only [List.map_cons, hq, if_false, Bool.false_eq_true]
        rw [List.find?_cons_of_neg (by simpa using hq)]
        exact ih this
  · rename_i hany
    have hnone : acc.find? (·.1 == k) = none := by
      rw [List.find?_eq_none]
      intro q hq hqk
      exact hany (List.any_eq_true.2 ⟨q, hq, hqk⟩)
    rw [List.find?_append, hnone]
    simp

/-- **last write wins**: after the record `x` is written, looking up (`x.builder`, `x.app`) finds `x` -/
theorem insightsOf_last (l : List Insight) (x : Insight) :
    lookup (insightsOf (l ++ [x])) x.builder x.app = some x := by
  unfold insightsOf
  rw [List.foldl_append]
  simp only [List.foldl_cons, List.foldl_nil]
  generalize List.foldl insertInsight [] l = acc
  unfold lookup insertInsight
  cases hf : acc.find? (·.1 == x.builder) with
  | some p =>
    obtain ⟨k, apps⟩ := p
    simp only
    rw [find_insertKeyed_self]
    simp only [Option.bind_some]
    rw [find_insertKeyed_self]
    rfl
  | none =>
    simp only
    rw [List.find?_append, hf]
    simp

/-- non-vacuity / behaviour on a concrete list: two builders, an app name written twice for one builder -/
def i1 : Insight := { builder := "b1", app := "a", outfile := "o1", modules := [] }
def i2 : Insight := { builder := "b2", app := "a", outfile := "o2", modules := [] }
def i3 : Insight := { builder := "b1", app := "z", outfile := "o3", modules := [("z", ["x"])] }
def i4 : Insight := { builder := "b1", app := "a", outfile := "o4", modules := [] }

example : insightsOf [i1, i2, i3, i4] = [("b1", [("a", i4), ("z", i3)]), ("b2", [("a", i2)])] := by decide
example : lookup (insightsOf [i1, i2, i3, i4]) "b1" "a" = some i4 := by decide
example : moduleInfoOf { modules := [{ name := "app", contextName := "c", selects := [.hard "m", .ifSoft "q" "n"] },
                                     { name := "m", contextName := "c" }], providers := [] } ["m", "app"]
    = [("m", []), ("app", ["m", "n"])] := by decide

end Laze.C09i
