import LazeModel.Theorems.C06_unique
/-! C06 — the text-level outputs of a rendered statement are the statement's outputs (for plain output words) -/
namespace Laze.C06
open Laze

/-- a character that is neither the separator the check looks for nor a hash-token delimiter -/
def CPlain (c : Char) : Prop := c ≠ ':' ∧ c ≠ '\x01' ∧ c ≠ '\x02'
/-- … nor a space -/
def WPlain (c : Char) : Prop := CPlain c ∧ c ≠ ' '
/-- an output path the generator's path alphabet produces: not empty, no space, colon or token delimiter -/
def PlainWord (w : List Char) : Prop := w ≠ [] ∧ ∀ c ∈ w, WPlain c

theorem tokDepth_plain {c : Char} (h : CPlain c) : tokDepth 0 c = 0 := by
  obtain ⟨_, h1, h2⟩ := h
  simp [tokDepth, h1, h2]

theorem takeUntilColon_plain (w : List Char) (hw : ∀ c ∈ w, CPlain c) (R : List Char) :
    takeUntilColon 0 (w ++ R) = (takeUntilColon 0 R).map (w ++ ·) := by
  induction w with
  | nil => simp
  | cons c cs ih =>
    have hc := hw c (List.mem_cons_self)
    have hne : ¬ ((0 : Nat) == 0 && c == ':') = true := by simp [hc.1]
    rw [List.cons_append, takeUntilColon, if_neg hne, tokDepth_plain hc, ih (fun x hx => hw x (List.mem_cons_of_mem _ hx))]
    cases takeUntilColon 0 R <;> simp

theorem takeUntilColon_colon (T : List Char) : takeUntilColon 0 (':' :: T) = some [] := by
  simp [takeUntilColon]

theorem splitSpaces_plain (w : List Char) (hw : ∀ c ∈ w, WPlain c) (cur R : List Char) :
    splitSpaces 0 cur (w ++ R) = splitSpaces 0 (w.reverse ++ cur) R := by
  induction w generalizing cur with
  | nil => simp
  | cons c cs ih =>
    have hc := hw c (List.mem_cons_self)
    have hne : ¬ ((0 : Nat) == 0 && c == ' ') = true := by simp [hc.2]
    rw [List.cons_append, splitSpaces, if_neg hne, tokDepth_plain hc.1, ih (fun x hx => hw x (List.mem_cons_of_mem _ hx))]
    simp

/-- words separated (and preceded) by single spaces split back into the words -/
theorem splitSpaces_words (ws : List (List Char)) (hws : ∀ w ∈ ws, PlainWord w) (cur : List Char) (hcur : cur ≠ []) :
    splitSpaces 0 cur (ws.flatMap (' ' :: ·)) = cur.reverse :: ws := by
  induction ws generalizing cur with
  | nil => simp [splitSpaces, hcur]
  | cons w ws ih =>
    obtain ⟨hwne, hwp⟩ := hws w (List.mem_cons_self)
    rw [List.flatMap_cons, List.cons_append, splitSpaces]
    simp only [beq_self_eq_true, Bool.and_self, if_true]
    rw [if_neg (by simpa using hcur), splitSpaces_plain w hwp, List.append_nil,
      ih (fun x hx => hws x (List.mem_cons_of_mem _ hx)) _ (by simpa using hwne)]
    simp

theorem cplain_space : CPlain ' ' := by unfold CPlain; decide

/-- **the check reads what the statement means**: for a statement whose outputs are plain words, the outputs the text names are
    the outputs of the statement -/
theorem entryOuts_build (b : NinjaBuild) (h : ∀ o ∈ b.outs, PlainWord o.toList) :
    entryOuts b.render = b.outs := by
  unfold entryOuts NinjaBuild.render
  simp only [String.toList_append, String.toList_join, List.flatMap_map]
  have hb : "build".toList = ['b', 'u', 'i', 'l', 'd'] := by decide
  have hc : ": $\n    ".toList = ':' :: " $\n    ".toList := by decide
  rw [hb, hc]
  cases hos : b.outs with
  | nil => simp
  | cons o os =>
    have ho := h o (by rw [hos]; exact List.mem_cons_self)
    have hos' : ∀ x ∈ os, PlainWord x.toList := fun x hx => h x (by rw [hos]; exact List.mem_cons_of_mem _ hx)
    simp only [List.flatMap_cons, List.cons_append, List.nil_append, List.append_assoc]
    have hsp : " ".toList = [' '] := by decide
    simp only [hsp, List.cons_append, List.nil_append]
    -- the words after the first one, each preceded by a space
    have hrest : (os.flatMap (fun a => ' ' :: a.toList)) = (os.map String.toList).flatMap (' ' :: ·) := by
      simp [List.flatMap_map]
    rw [hrest]
    generalize hT : (" $\n    ".toList ++ _) = T
    have hplain : ∀ c ∈ o.toList ++ (os.map String.toList).flatMap (' ' :: ·), CPlain c := by
      intro c hcm
      rcases List.mem_append.1 hcm with hcm | hcm
      · exact (ho.2 c hcm).1
      · obtain ⟨w, hw, hcw⟩ := List.mem_flatMap.1 hcm
        obtain ⟨x, hx, rfl⟩ := List.mem_map.1 hw
        rcases List.mem_cons.1 hcw with rfl | hcw
        · exact cplain_space
        · exact ((hos' x hx).2 c hcw).1
    rw [← List.append_assoc, takeUntilColon_plain _ hplain, takeUntilColon_colon]
    simp only [Option.map_some, List.append_nil]
    rw [splitSpaces_plain o.toList ho.2, List.append_nil,
      splitSpaces_words _ (by intro w hw; obtain ⟨x, hx, rfl⟩ := List.mem_map.1 hw; exact hos' x hx) _ (by simpa using ho.1)]
    simp [String.ofList_toList]

/-- non-vacuity: the paths laze chooses are plain words -/
example : PlainWord "build/objects/src/a.1234567890.o".toList := by
  unfold PlainWord WPlain CPlain; decide

end Laze.C06
