import LazeModel.Theorems.C12_order
/-! C02 — exclusion relies on the admission tests running before registration and on conflicts being registered before the module's own
    dependencies are resolved (`C02.excl` is proved for the model's `enter`). The source-level half is the translator obligation of
    `C12_order.lean`, re-stated here so that C02's check fails when it does. -/
namespace Laze.C02order
theorem resolve_steps_reviewed : Generated.resolveSteps = C12order.reviewed := C12order.resolve_steps_reviewed
/-- conflicts are registered before the loop over the module's dependencies -/
theorem conflicts_registered_before_deps :
    ((C12order.reviewed.takeWhile (·.1 != "loop:deps")).any (·.1 == "register:conflicts")) = true := by decide +kernel
end Laze.C02order
