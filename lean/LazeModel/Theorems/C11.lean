import LazeModel.Model.Ctx
/-! C11 — apps are configured only for eligible builders: the allow/block decision. -/
namespace Laze.C11
open Laze

def optMin : Option Nat → Option Nat → Option Nat
  | some a, some b => some (min a b)
  | some a, none => some a
  | none, b => b

theorem optMin_right_comm (a b c : Option Nat) : optMin (optMin a b) c = optMin (optMin a c) b := by
  cases a <;> cases b <;> cases c <;> simp [optMin] <;> omega

/-- depth of a listed name above `c` (`none`: unknown name or not an ancestor-or-self) -/
def listedDepth (t : Tree) (c : Name) (x : Name) : Option Nat :=
  match t.ctx? x with
  | none => none
  | some _ => t.depthOf x c

/-- the depth component of `is_ancestor_in_list` -/
def nearestDepth (t : Tree) (c : Name) (l : List Name) : Option Nat := (t.nearestIn c l).map (·.2)

theorem nearestDepth_fold (t : Tree) (c : Name) (l : List Name) :
    nearestDepth t c l = l.foldl (fun best x => optMin best (listedDepth t c x)) none := by
  unfold nearestDepth Tree.nearestIn
  suffices h : ∀ (best : Option (Name × Nat)),
      (l.foldl (t.nearestStep c) best).map (·.2)
      = l.foldl (fun best x => optMin best (listedDepth t c x)) (best.map (·.2)) by
    simpa using h none
  induction l with
  | nil => intro best; rfl
  | cons x rest ih =>
    intro best
    simp only [List.foldl_cons]
    rw [ih]
    congr 1
    unfold listedDepth Tree.nearestStep
    cases hx : t.ctx? x with
    | none => cases best <;> simp [optMin]
    | some cx =>
      cases hd : t.depthOf x c with
      | none => cases best <;> simp [optMin]
      | some d =>
        cases best with
        | none => simp [optMin]
        | some b =>
          obtain ⟨bn, bd⟩ := b
          by_cases hle : bd ≤ d
          · simp [optMin, hle, Nat.min_eq_left hle]
          · simp [optMin, hle]; omega

theorem nearestDepth_perm (t : Tree) (c : Name) {l l' : List Name} (h : l.Perm l') :
    nearestDepth t c l = nearestDepth t c l' := by
  rw [nearestDepth_fold, nearestDepth_fold]
  exact h.foldl_eq' (fun x _ y _ z => optMin_right_comm z _ _) _

theorem fold_optMin_le (f : Name → Option Nat) (l : List Name) (init : Option Nat) :
    ∀ d, l.foldl (fun best x => optMin best (f x)) init = some d →
      ((init = some d ∨ ∃ x ∈ l, f x = some d) ∧
       (∀ i, init = some i → d ≤ i) ∧ ∀ y ∈ l, ∀ dy, f y = some dy → d ≤ dy) := by
  induction l generalizing init with
  | nil => intro d h; simp at h; subst h; simp
  | cons x rest ih =>
    intro d h
    simp only [List.foldl_cons] at h
    obtain ⟨hex, hinit, hall⟩ := ih _ d h
    refine ⟨?_, ?_, ?_⟩
    · rcases hex with hex | ⟨y, hy, hfy⟩
      · cases init with
        | none => right; exact ⟨x, by simp, by simpa [optMin] using hex⟩
        | some i =>
          cases hfx : f x with
          | none => left; simpa [optMin, hfx] using hex
          | some dx =>
            simp [optMin, hfx] at hex
            by_cases hle : i ≤ dx
            · left; rw [Nat.min_eq_left hle] at hex; simp [hex]
            · right; refine ⟨x, by simp, ?_⟩; rw [hfx]; congr 1; omega
      · right; exact ⟨y, by simp [hy], hfy⟩
    · intro i hi
      subst hi
      cases hfx : f x with
      | none => exact hinit i (by simp [optMin, hfx])
      | some dx => have := hinit (min i dx) (by simp [optMin, hfx]); omega
    · intro y hy dy hfy
      rcases List.mem_cons.mp hy with rfl | hy
      · cases init with
        | none => exact hinit dy (by simp [optMin, hfy])
        | some i => have := hinit (min i dy) (by simp [optMin, hfy]); omega
      · exact hall y hy dy hfy

theorem fold_optMin_none (f : Name → Option Nat) (l : List Name) :
    l.foldl (fun best x => optMin best (f x)) none = none → ∀ y ∈ l, f y = none := by
  intro h y hy
  cases hfy : f y with
  | none => rfl
  | some dy =>
    exfalso
    -- some element has a depth, so the fold cannot be none
    have : ∀ (l : List Name) (init : Option Nat), init.isSome → (l.foldl (fun best x => optMin best (f x)) init).isSome := by
      intro l
      induction l with
      | nil => intro init hi; simpa using hi
      | cons x rest ih =>
        intro init hi
        simp only [List.foldl_cons]
        apply ih
        cases init with
        | none => simp at hi
        | some i => cases f x <;> simp [optMin]
    have key : ∀ (l : List Name) (init : Option Nat), y ∈ l → (l.foldl (fun best x => optMin best (f x)) init).isSome := by
      intro l
      induction l with
      | nil => intro init hy; simp at hy
      | cons x rest ih =>
        intro init hy
        simp only [List.foldl_cons]
        rcases List.mem_cons.mp hy with rfl | hy
        · apply this; rw [hfy]; cases init <;> simp [optMin]
        · exact ih _ hy
    have := key l none hy
    rw [h] at this; simp at this

/-- `is_ancestor_in_list` returns the *nearest* listed ancestor: its depth is attained by a listed
    name and is minimal among all listed names on the parent chain. -/
theorem nearest_is_min (t : Tree) (c : Name) (l : List Name) (d : Nat)
    (h : nearestDepth t c l = some d) :
    (∃ x ∈ l, listedDepth t c x = some d) ∧ ∀ y ∈ l, ∀ dy, listedDepth t c y = some dy → d ≤ dy := by
  rw [nearestDepth_fold] at h
  obtain ⟨hex, _, hall⟩ := fold_optMin_le (listedDepth t c) l none d h
  refine ⟨?_, hall⟩
  rcases hex with hex | hex
  · simp at hex
  · exact hex

theorem nearest_none (t : Tree) (c : Name) (l : List Name) (h : nearestDepth t c l = none) :
    ∀ y ∈ l, listedDepth t c y = none := by
  rw [nearestDepth_fold] at h
  exact fold_optMin_none _ _ h

/-- the decision as a function of the two nearest depths only -/
def decide2 (allow block : Option (Option Nat)) : Bool :=
  match allow, block with
  | some a, some b =>
    (match a, b with
     | some ad, some bd => !(ad > bd)
     | some _, none => true
     | none, some _ => false
     | none, none => true)
  | some a, none => a.isSome
  | none, some b => b.isNone
  | none, none => true

/-- The decision table of C11: `is_allowed` depends only on the depths of the nearest listed
    ancestors: blocklisted nearer ⇒ not built; allowlisted nearer (or equally near) ⇒ built;
    only a blocklist and it matches ⇒ not built; only an allowlist and no match ⇒ not built. -/
theorem core_spec (a b : Option (Option (Name × Nat))) :
    (isAllowedCore a b).ok = decide2 (a.map (·.map (·.2))) (b.map (·.map (·.2))) := by
  rcases a with _ | _ | ⟨an, ad⟩ <;> rcases b with _ | _ | ⟨bn, bd⟩ <;>
    simp [isAllowedCore, decide2, Verdict.ok, Verdict.allow, Verdict.block]
  all_goals (first
    | (cases ad <;> rfl)
    | (cases bd <;> rfl)
    | (by_cases hgt : bd < ad <;> simp [hgt] <;> (first | (cases bd <;> rfl) | (cases ad <;> rfl))))

theorem allow_block_spec (t : Tree) (c : Name) (block allow : Option (List Name)) :
    (t.isAllowed c block allow).ok =
      decide2 (allow.map (nearestDepth t c)) (block.map (nearestDepth t c)) := by
  unfold Tree.isAllowed
  rw [core_spec]
  cases allow <;> cases block <;> rfl

/-- C11: the decision does not depend on the order in which names are written in either list -/
theorem order_independent (t : Tree) (c : Name) {al al' bl bl' : List Name}
    (ha : al.Perm al') (hb : bl.Perm bl') :
    (t.isAllowed c (some bl) (some al)).ok = (t.isAllowed c (some bl') (some al')).ok := by
  simp only [allow_block_spec, Option.map, nearestDepth_perm t c ha, nearestDepth_perm t c hb]

theorem order_independent_allow_only (t : Tree) (c : Name) {al al' : List Name} (ha : al.Perm al') :
    (t.isAllowed c none (some al)).ok = (t.isAllowed c none (some al')).ok := by
  simp only [allow_block_spec, Option.map, nearestDepth_perm t c ha]

theorem order_independent_block_only (t : Tree) (c : Name) {bl bl' : List Name} (hb : bl.Perm bl') :
    (t.isAllowed c (some bl) none).ok = (t.isAllowed c (some bl') none).ok := by
  simp only [allow_block_spec, Option.map, nearestDepth_perm t c hb]

/-- an allowlist alone excludes every builder not under a listed context -/
theorem allow_only_excludes (t : Tree) (c : Name) (al : List Name)
    (h : ∀ x ∈ al, listedDepth t c x = none) : (t.isAllowed c none (some al)).ok = false := by
  rw [allow_block_spec]
  cases hn : nearestDepth t c al with
  | none => simp [decide2, hn]
  | some d =>
    obtain ⟨⟨x, hx, hd⟩, _⟩ := nearest_is_min t c al d hn
    rw [h x hx] at hd; cases hd

-- non-vacuity: the order-sensitive example of the unfixed code (allowlist [default, b] vs [b, default])
def exTree : Tree := [⟨"default", none⟩, ⟨"a", some "default"⟩, ⟨"b", some "a"⟩]
example : (exTree.isAllowed "b" (some ["a"]) (some ["default", "b"])).ok = true := by decide
example : (exTree.isAllowed "b" (some ["a"]) (some ["b", "default"])).ok = true := by decide
example : (exTree.isAllowed "b" (some ["a"]) (some ["default"])).ok = false := by decide

end Laze.C11
