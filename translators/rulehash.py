#!/usr/bin/env python3
"""Translator: what a ninja rule's name (and with it every shareable object's path) is a hash OF, and what a rule block PRINTS, read
from /repo/src/ninja/mod.rs and /repo/src/utils.rs on every run -> lean/LazeModel/Generated/RuleHash.lean.

 ruleHashed   the `self.<field>` mentions of `impl Hash for NinjaRule`, in source order, each with the guard it sits under
              ("" = unconditional)
 rulePrinted  the `self.<field>` mentions of `impl Display for NinjaRule` (the rule block in the ninja file), in source order
 ruleStructFields  the fields of `struct NinjaRule`
 hasherCtors  for `NinjaRule::get_hash` and `utils::calculate_hash`: the expression that creates the hasher

The obligations (Theorems/C07_hash.lean) require these to equal reviewed tables and every printed field to be hashed: a field dropped
from the hash, a new printed field that is not hashed, or a per-process random hasher breaks them even if no generated project
happens to contain two rules differing only there."""
import os, re, sys

REPO = os.environ.get("LAZE_REPO", "/repo")
OUT = os.path.join(os.path.dirname(os.path.dirname(os.path.abspath(__file__))), "lean", "LazeModel", "Generated", "RuleHash.lean")


def strip(line):
    line = re.sub(r'"(?:[^"\\]|\\.)*"', lambda m: '"' + re.sub(r"[{}/]", " ", m.group(0)[1:-1]) + '"', line)
    i = line.find("//")
    return line if i < 0 else line[:i]


def block(src, header_rx):
    """lines (code, depth-inside-the-item) of the first item whose header matches"""
    lines = src.split("\n")
    out, depth, inside, opened = [], 0, False, False
    for raw in lines:
        code = strip(raw)
        if not inside:
            if header_rx.search(code):
                inside, depth, opened = True, 0, False
            else:
                continue
        d0 = depth
        depth += code.count("{") - code.count("}")
        out.append((code, d0))
        if depth > 0:
            opened = True
        if opened and depth <= 0:
            break
    return out


def guards_and_fields(blk):
    """(field, guard) for every `self.<field>` in statement position, with the innermost enclosing `if`/`match` condition"""
    res = []
    stack = []          # (depth at which the guard's block opened, text)
    for code, d0 in blk:
        c = code.strip()
        while stack and stack[-1][0] >= d0 and not c.startswith("}"):
            break
        # closing braces pop guards
        while stack and d0 <= stack[-1][0]:
            stack.pop()
        m = re.match(r"(if|match)\b(.*)\{\s*$", c)
        guard = " ".join(re.sub(r"\s+", " ", g[1]).strip() for g in stack)
        for f in re.findall(r"self\.([a-z_]+)", c):
            if m:
                continue            # a mention inside the guard's own condition is not a hashed / printed item
            res.append((f, guard))
        if m:
            stack.append((d0, (m.group(1) + " " + m.group(2)).strip()))
    return res


def main():
    nsrc = open(os.path.join(REPO, "src", "ninja", "mod.rs")).read()
    usrc = open(os.path.join(REPO, "src", "utils.rs")).read()
    hashed = guards_and_fields(block(nsrc, re.compile(r"impl\s+Hash\s+for\s+NinjaRule")))
    # match arms `NinjaRuleDeps::GCC(s) => s.hash(state)` hash the payload of the matched field
    hb = block(nsrc, re.compile(r"impl\s+Hash\s+for\s+NinjaRule"))
    arms = []
    cur = None
    for code, d0 in hb:
        m = re.match(r"\s*match\s+&?self\.([a-z_]+)\s*\{", code)
        if m:
            cur = m.group(1)
        m2 = re.search(r"=>\s*([a-z_]+)\.hash\(state\)", code)
        if cur and m2:
            arms.append((cur + ".payload", "match " + cur))
    printed = [f for f, g in guards_and_fields(block(nsrc, re.compile(r"impl\s+fmt::Display\s+for\s+NinjaRule")))]
    # fields mentioned only inside `if let … = &self.x {` conditions are printed through the bound name
    pb = block(nsrc, re.compile(r"impl\s+fmt::Display\s+for\s+NinjaRule"))
    cond_fields = []
    for code, d0 in pb:
        m = re.match(r"\s*if let .* = &?self\.([a-z_]+)\s*\{", code)
        if m:
            cond_fields.append(m.group(1))
    printed_all = []
    for code, d0 in pb:
        for f in re.findall(r"self\.([a-z_]+)", code):
            if f not in printed_all:
                printed_all.append(f)
    sb = block(nsrc, re.compile(r"pub\s+struct\s+NinjaRule\b"))
    fields = []
    for code, d0 in sb:
        m = re.match(r"\s*(?:pub(?:\([a-z]+\))?\s+)?([a-z_]+)\s*:", code)
        if m and d0 >= 1:
            fields.append(m.group(1))
    ctors = []
    for name, src, rx in (("NinjaRule::get_hash", nsrc, re.compile(r"pub fn get_hash\(")), ("utils::calculate_hash", usrc, re.compile(r"fn calculate_hash"))):
        b = block(src, rx)
        ctor = "?"
        for code, d0 in b:
            m = re.search(r"let\s+mut\s+\w+\s*=\s*([^;]+);", code)
            if m:
                ctor = re.sub(r"\s+", "", m.group(1))
                break
            m = re.search(r"(RandomState::new\(\)[^;]*|BuildHasher[^;]*)", code)
            if m:
                ctor = re.sub(r"\s+", "", m.group(1))
        uses_hash_one = any("hash_one" in code for code, d0 in b)
        ctors.append((name, ctor + ("+hash_one" if uses_hash_one else "")))
    esc = lambda s: s.replace("\\", "\\\\").replace('"', '\\"')
    os.makedirs(os.path.dirname(OUT), exist_ok=True)
    with open(OUT, "w") as f:
        f.write("/-! GENERATED by translators/rulehash.py from /repo/src/ninja/mod.rs and utils.rs on every run — do not edit. -/\n")
        f.write("namespace Laze.Generated\n\n")
        f.write("/-- `impl Hash for NinjaRule`: hashed field, guard -/\ndef ruleHashed : List (String × String) := [\n")
        f.write(",\n".join(f'  ("{esc(a)}", "{esc(b)}")' for a, b in hashed + arms))
        f.write("\n]\n\n/-- `impl Display for NinjaRule`: fields that reach the rule block -/\ndef rulePrinted : List String := [\n")
        f.write(",\n".join(f'  "{esc(a)}"' for a in printed_all))
        f.write("\n]\n\n/-- fields of `struct NinjaRule` -/\ndef ruleStructFields : List String := [\n")
        f.write(",\n".join(f'  "{esc(a)}"' for a in fields))
        f.write("\n]\n\n/-- how the hashers are created -/\ndef hasherCtors : List (String × String) := [\n")
        f.write(",\n".join(f'  ("{esc(a)}", "{esc(b)}")' for a, b in ctors))
        f.write("\n]\n\nend Laze.Generated\n")
    if "-v" in sys.argv:
        print(hashed + arms); print(printed_all); print(fields); print(ctors)


if __name__ == "__main__":
    main()
