#!/usr/bin/env python3
"""Translator: how laze assembles and judges a ninja invocation, regenerated from /repo/src on every run
-> lean/LazeModel/Generated/NinjaCmd.lean.

 * `ninjaCmdRun`  — `NinjaCmd::run` (src/ninja/mod.rs) as a little argument program: every `cmd.arg(..)` in source order with the
   stack of conditions it sits under. Conditions and arguments are classified into the constructors the interpreter in
   Theorems/C18_ninjacmd.lean knows (`verbose`, `jobs`, ...); anything else — another condition, a length test, an extra statement —
   becomes `unknown "<text>"`, which the interpreter cannot run, so the obligation `ninjaCmd_run_is_model` stops checking.
 * `ninjaRunSetters` / `ninjaRunVerdict` — `ninja_run` (src/main.rs): the builder setters with their guards, and the arms of the match on
   `ExitStatus::code()`.
 * `ninjaRunCalls` — the argument lists of the three `ninja_run(..)` call sites of `try_main`, in source order, with the enclosing
   conditions of the call."""
import os, re, sys

REPO = os.environ.get("LAZE_REPO", "/repo")
OUT = os.path.join(os.path.dirname(os.path.dirname(os.path.abspath(__file__))), "lean", "LazeModel", "Generated", "NinjaCmd.lean")


def strip_comments(src):
    out = []
    for line in src.split("\n"):
        q = re.sub(r'"(?:[^"\\]|\\.)*"', lambda m: m.group(0).replace("//", "\x00\x00"), line)
        i = q.find("//")
        out.append(line if i < 0 else line[:i])
    return "\n".join(out)


def fn_body(src, header_rx):
    m = header_rx.search(src)
    if not m:
        return None
    i = src.index("{", m.end() - 1) if src[m.end() - 1] != "{" else m.end() - 1
    depth, j = 0, i
    while j < len(src):
        if src[j] == '"':
            j += 1
            while j < len(src) and src[j] != '"':
                j += 2 if src[j] == "\\" else 1
        elif src[j] == "{":
            depth += 1
        elif src[j] == "}":
            depth -= 1
            if depth == 0:
                return src[i + 1:j]
        j += 1
    return None


def lean_str(s):
    return '"' + s.replace("\\", "\\\\").replace('"', '\\"').replace("\n", " ") + '"'


def norm(s):
    return re.sub(r"\s+", " ", s).strip()


# ---------------------------------------------------------------- NinjaCmd::run

GUARDS = [
    (re.compile(r"^if self\.verbose$"), "NGuard.verbose"),
    (re.compile(r"^if let Some\(jobs\) = self\.jobs$"), "NGuard.jobs"),
    (re.compile(r"^if let Some\(keep_going\) = self\.keep_going$"), "NGuard.keepGoing"),
    (re.compile(r"^if let Some\(targets\) = &self\.targets$"), "NGuard.targets"),
    (re.compile(r"^for target in targets$"), "NGuard.eachTarget"),
]
ARGS = [
    (re.compile(r'^"((?:[^"\\]|\\.)*)"$'), lambda m: "NArg.lit " + lean_str(m.group(1))),
    (re.compile(r"^self\.build_file$"), lambda m: "NArg.buildFile"),
    (re.compile(r"^jobs\.to_string\(\)$"), lambda m: "NArg.jobs"),
    (re.compile(r"^keep_going\.to_string\(\)$"), lambda m: "NArg.keepGoing"),
    (re.compile(r"^target$"), lambda m: "NArg.target"),
]


def classify_guard(text):
    for rx, name in GUARDS:
        if rx.match(text):
            return name
    return "NGuard.unknown " + lean_str(text)


def classify_arg(text):
    for rx, f in ARGS:
        m = rx.match(text)
        if m:
            return f(m)
    return "NArg.unknown " + lean_str(text)


def split_statements(body):
    """yield ('open', header) / ('close',) / ('stmt', text) for a function body (blocks by braces, statements by ';')"""
    cur, i, n = "", 0, len(body)
    while i < n:
        ch = body[i]
        if ch == '"':
            j = i + 1
            while j < n and body[j] != '"':
                j += 2 if body[j] == "\\" else 1
            cur += body[i:j + 1]
            i = j + 1
            continue
        if ch == "{":
            yield ("open", norm(cur))
            cur = ""
        elif ch == "}":
            if norm(cur):
                yield ("stmt", norm(cur))
            cur = ""
            yield ("close",)
        elif ch == ";":
            if norm(cur):
                yield ("stmt", norm(cur))
            cur = ""
        else:
            cur += ch
        i += 1
    if norm(cur):
        yield ("stmt", norm(cur))


def arg_calls(stmt):
    """the argument texts of a `cmd.arg(a).arg(b)` chain; None if the statement is something else"""
    if not stmt.startswith("cmd"):
        return None
    rest, out = stmt[3:], []
    while rest:
        m = re.match(r"^\s*\.arg\(", rest)
        if not m:
            return None
        depth, j = 1, m.end()
        while j < len(rest) and depth:
            if rest[j] == '"':
                j += 1
                while j < len(rest) and rest[j] != '"':
                    j += 2 if rest[j] == "\\" else 1
            elif rest[j] == "(":
                depth += 1
            elif rest[j] == ")":
                depth -= 1
            j += 1
        out.append(norm(rest[m.end():j - 1]))
        rest = rest[j:]
    return out


def translate_run(src):
    impl = fn_body(src, re.compile(r"impl NinjaCmd<'_>\s*\{"))
    body = fn_body(impl or "", re.compile(r"pub fn run\(&self\)[^{]*\{"))
    if body is None:
        return None, None
    steps, stack, final = [], [], None
    for ev in split_statements(body):
        if ev[0] == "open":
            stack.append(classify_guard(ev[1]))
        elif ev[0] == "close":
            if stack:
                stack.pop()
        else:
            st = ev[1]
            if st == "let mut cmd = Command::new(self.binary)":
                continue
            calls = arg_calls(st)
            if calls is not None and calls:
                for a in calls:
                    steps.append((list(stack), classify_arg(a)))
            elif st == "cmd.status()" and not stack:
                final = st
            else:
                steps.append((list(stack), "NArg.unknown " + lean_str(st)))
    return steps, final


# ---------------------------------------------------------------- ninja_run and its call sites (main.rs)

def translate_ninja_run(src):
    body = fn_body(src, re.compile(r"fn ninja_run\([^)]*\)\s*->\s*Result<i32, Error>\s*\{"))
    if body is None:
        return None, None
    setters, stack = [], []
    for ev in split_statements(body):
        if ev[0] == "open":
            stack.append(ev[1])
        elif ev[0] == "close":
            if stack:
                stack.pop()
        else:
            st = ev[1]
            if st.startswith("ninja_cmd ") or st.startswith("ninja_cmd."):
                for m in re.finditer(r"\.(\w+)\(([^()]*)\)", st):
                    setters.append((list(stack), f"{m.group(1)}({norm(m.group(2))})"))
    # the verdict: arms of `match ninja_exit.code()`
    m = re.search(r"match ninja_exit\.code\(\)\s*\{", body)
    verdict = []
    if m:
        mb = fn_body(body[m.start():], re.compile(r"match ninja_exit\.code\(\)\s*\{"))
        verdict = [norm(x) for x in re.split(r",\s*\n", mb or "") if norm(x)]
        verdict = [norm(mb or "")]
    return setters, verdict


def translate_calls(src):
    body = fn_body(src, re.compile(r"fn try_main\(\)\s*->\s*Result<i32>\s*\{"))
    if body is None:
        return None
    calls = []
    for m in re.finditer(r"ninja_run\(", body):
        depth, j = 1, m.end()
        while j < len(body) and depth:
            if body[j] == "(":
                depth += 1
            elif body[j] == ")":
                depth -= 1
            j += 1
        args = body[m.end():j - 1]
        parts, cur, d = [], "", 0
        for ch in args:
            if ch in "([":
                d += 1
            elif ch in ")]":
                d -= 1
            if ch == "," and d == 0:
                parts.append(norm(cur)); cur = ""
            else:
                cur += ch
        if norm(cur):
            parts.append(norm(cur))
        calls.append(parts)
    return calls


def main():
    nsrc = strip_comments(open(os.path.join(REPO, "src", "ninja", "mod.rs")).read())
    msrc = strip_comments(open(os.path.join(REPO, "src", "main.rs")).read())
    steps, final = translate_run(nsrc)
    setters, verdict = translate_ninja_run(msrc)
    calls = translate_calls(msrc)
    os.makedirs(os.path.dirname(OUT), exist_ok=True)
    with open(OUT, "w") as f:
        f.write("/-! GENERATED by translators/ninjacmd.py from /repo/src/ninja/mod.rs and /repo/src/main.rs on every run — do not edit. -/\n")
        f.write("namespace Laze.Generated\n\n")
        f.write("inductive NGuard where\n  | verbose | jobs | keepGoing | targets | eachTarget\n  | unknown (text : String)\n  deriving Repr, DecidableEq\n\n")
        f.write("inductive NArg where\n  | lit (s : String) | buildFile | jobs | keepGoing | target\n  | unknown (text : String)\n  deriving Repr, DecidableEq\n\n")
        f.write("/-- `NinjaCmd::run`: every `cmd.arg(..)` in source order under its stack of conditions (`none`: function not found) -/\n")
        if steps is None:
            f.write("def ninjaCmdRun : Option (List (List NGuard × NArg)) := none\n\n")
        else:
            f.write("def ninjaCmdRun : Option (List (List NGuard × NArg)) := some [\n")
            f.write(",\n".join("  ([" + ", ".join(g) + "], " + a + ")" for g, a in steps))
            f.write("]\n\n")
        f.write("/-- the last expression of `NinjaCmd::run` at the top level of the function -/\n")
        f.write("def ninjaCmdFinal : Option String := " + ("some " + lean_str(final) if final else "none") + "\n\n")
        f.write("/-- `ninja_run`: builder setters with the conditions they sit under -/\n")
        f.write("def ninjaRunSetters : List (List String × String) := [\n")
        f.write(",\n".join("  ([" + ", ".join(lean_str(g) for g in gs) + "], " + lean_str(s) + ")" for gs, s in (setters or [])))
        f.write("]\n\n")
        f.write("/-- `ninja_run`: the match on `ExitStatus::code()` -/\n")
        f.write("def ninjaRunVerdict : List String := [" + ", ".join(lean_str(v) for v in (verdict or [])) + "]\n\n")
        f.write("/-- the argument lists of the `ninja_run(..)` calls of `try_main`, in source order -/\n")
        f.write("def ninjaRunCalls : List (List String) := [\n")
        f.write(",\n".join("  [" + ", ".join(lean_str(a) for a in c) + "]" for c in (calls or [])))
        f.write("]\n\nend Laze.Generated\n")
    return 0


if __name__ == "__main__":
    sys.exit(main())
