#!/usr/bin/env python3
"""Translator: two small decision procedures of laze, regenerated from /repo/src on every run as DATA that the theorem files interpret
-> lean/LazeModel/Generated/Decisions.lean.

 * `isAllowedTree`  — the if/else tree of `ContextBag::is_allowed` (src/model/context_bag.rs), conditions and returns classified into
   the constructors `Theorems/C11_decision.lean` can evaluate; the obligation there proves that for EVERY pair of list lookups the tree
   returns what the model's `isAllowedCore` returns. The two `let …_entry = …` bindings before the tree are pinned as text.
 * `envKeyMergeArms` — the (nested) match of `EnvKey::merge` (src/nested_env/mod.rs) as rows (pattern of self, pattern of other,
   result); `Theorems/C04_merge.lean` proves the rows compute the model's `EnvKey.merge` for every pair of values.
Anything the classifier does not recognise becomes an `unknown "<text>"` constructor, which the interpreters reject."""
import os, re, sys

sys.path.insert(0, os.path.dirname(os.path.abspath(__file__)))
from ninjacmd import strip_comments, fn_body, lean_str, norm, split_statements

REPO = os.environ.get("LAZE_REPO", "/repo")
OUT = os.path.join(os.path.dirname(os.path.dirname(os.path.abspath(__file__))), "lean", "LazeModel", "Generated", "Decisions.lean")

CONDS = [
    (r"^allowlist\.is_some\(\)$", "ACond.allowSome"),
    (r"^blocklist\.is_some\(\)$", "ACond.blockSome"),
    (r"^let IsAncestor::Yes\(allow_index, allow_depth\) = allowlist_entry$", "ACond.allowYes"),
    (r"^let IsAncestor::Yes\(block_index, block_depth\) = blocklist_entry$", "ACond.blockYes"),
    (r"^let IsAncestor::No = allowlist_entry$", "ACond.allowNo"),
    (r"^let IsAncestor::No = blocklist_entry$", "ACond.blockNo"),
    (r"^allow_depth > block_depth$", "ACond.allowDeeper"),
]
RETS = [
    (r"^BlockAllow::block\(block_index, block_depth\)$", "ARet.block"),
    (r"^BlockAllow::allow\(allow_index, allow_depth\)$", "ARet.allow"),
    (r"^BlockAllow::Blocked$", "ARet.blocked"),
    (r"^BlockAllow::Allowed$", "ARet.allowed"),
]


def classify(text, table, unknown):
    for rx, name in table:
        if re.match(rx, text):
            return name
    return f"{unknown} " + lean_str(text)


def parse_block(events, i):
    """events[i:] up to the matching close -> (tree, next index). A block is a sequence of items."""
    items = []
    while i < len(events):
        ev = events[i]
        if ev[0] == "close":
            return items, i + 1
        if ev[0] == "stmt":
            st = ev[1]
            if st.startswith("return "):
                items.append(("ret", classify(st[7:].strip(), RETS, "ARet.unknown")))
            else:
                items.append(("ret" if i == len(events) - 1 else "stmt", classify(st, RETS, "ARet.unknown") if i == len(events) - 1 else st))
            i += 1
            continue
        # open
        head = ev[1]
        if head.startswith("if "):
            cond = classify(head[3:].strip(), CONDS, "ACond.unknown")
            then, i = parse_block(events, i + 1)
            els = []
            # else / else if directly after the close
            while i < len(events) and events[i][0] == "open" and events[i][1].startswith("else"):
                h2 = events[i][1]
                if h2 == "else":
                    els, i = parse_block(events, i + 1)
                    break
                elif h2.startswith("else if "):
                    c2 = classify(h2[8:].strip(), CONDS, "ACond.unknown")
                    t2, i = parse_block(events, i + 1)
                    # an `else if` chain nests to the right: collect the rest of the chain as its else part
                    rest = []
                    chain = [(c2, t2)]
                    while i < len(events) and events[i][0] == "open" and events[i][1].startswith("else"):
                        h3 = events[i][1]
                        if h3 == "else":
                            rest, i = parse_block(events, i + 1)
                            break
                        c3 = classify(h3[8:].strip(), CONDS, "ACond.unknown")
                        t3, i = parse_block(events, i + 1)
                        chain.append((c3, t3))
                    node = rest
                    for c, t in reversed(chain):
                        node = [("ite", c, t, node)]
                    els = node
                    break
            items.append(("ite", cond, then, els))
        else:
            sub, i = parse_block(events, i + 1)
            items.append(("stmt", "block " + head))
    return items, i


def lean_tree(items):
    """sequence of items -> ATree term"""
    if not items:
        return "ATree.skip"
    it = items[0]
    if it[0] == "ret":
        head = f"ATree.ret ({it[1]})"
    elif it[0] == "ite":
        head = f"ATree.ite ({it[1]}) ({lean_tree(it[2])}) ({lean_tree(it[3])})"
    else:
        head = f"ATree.ret (ARet.unknown {lean_str(it[1])})"
    if len(items) == 1:
        return head
    return f"ATree.seq ({head}) ({lean_tree(items[1:])})"


def translate_is_allowed(src):
    body = fn_body(src, re.compile(r"pub fn is_allowed\([^)]*\)\s*->\s*BlockAllow\s*\{"))
    if body is None:
        return None, []
    # the `let` bindings before the first `if`
    k = body.find("\n        if ")
    lets = [norm(x) for x in body[:k].split(";") if norm(x)] if k >= 0 else []
    events = list(split_statements(body[k:] if k >= 0 else body))
    items, _ = parse_block(events, 0)
    return lean_tree(items), lets


# ---------------------------------------------------------------- EnvKey::merge

def split_arms(text):
    """top-level arms `pat => body` of a match body"""
    arms, depth, cur, i = [], 0, "", 0
    while i < len(text):
        ch = text[i]
        if ch in "({[":
            depth += 1
        elif ch in ")}]":
            depth -= 1
        if ch == "," and depth == 0:
            if norm(cur):
                arms.append(norm(cur))
            cur = ""
        else:
            cur += ch
            # a block body `=> { ... }` or `=> match x { ... }` ends the arm without a comma
            if ch == "}" and depth == 0 and "=>" in cur:
                arms.append(norm(cur))
                cur = ""
        i += 1
    if norm(cur):
        arms.append(norm(cur))
    out = []
    for a in arms:
        if "=>" in a:
            p, b = a.split("=>", 1)
            out.append((norm(p), norm(b)))
        else:
            out.append(("?", a))
    return out


PATS = [(r"^EnvKey::Single\(\w+\)$", "MPat.single"), (r"^EnvKey::List\(\w+\)$", "MPat.list"), (r"^_$", "MPat.any")]
APPEND = "{ let mut combined = self_values.clone(); combined.append(other_values.clone()); EnvKey::List(combined) }"


def translate_merge(src):
    impl = fn_body(src, re.compile(r"impl EnvKey\s*\{"))
    body = fn_body(impl or "", re.compile(r"fn merge\(&self, other: &EnvKey\)\s*->\s*EnvKey\s*\{"))
    if body is None:
        return None
    body = norm(body)
    m = re.match(r"^match self \{(.*)\}$", body)
    if not m:
        return [("MPat.unknown " + lean_str(body[:80]), "MPat.any", "MRes.unknown " + lean_str("no outer match"))]
    rows = []
    for p, b in split_arms(m.group(1)):
        ps = classify(p, PATS, "MPat.unknown")
        m2 = re.match(r"^match other \{(.*)\}$", b)
        if m2:
            for p2, b2 in split_arms(m2.group(1)):
                rows.append((ps, classify(p2, PATS, "MPat.unknown"), result(b2)))
        else:
            rows.append((ps, "MPat.any", result(b)))
    return rows


def result(b):
    if b == "other.clone()":
        return "MRes.other"
    if norm(b) == APPEND:
        return "MRes.appendLists"
    if b == "self.clone()":
        return "MRes.self"
    return "MRes.unknown " + lean_str(b)


# ---------------------------------------------------------------- Selector::is_superset / Selector::selects (generate.rs)

SPATS = [(r"^Selector::All$", "SPat.all"), (r"^Selector::Some\(\w+\)$", "SPat.some"), (r"^_$", "SPat.any")]


def sres(b):
    if b == "true":
        return "SRes.true"
    if b == "false":
        return "SRes.false"
    if b == "set.is_superset(other_set)":
        return "SRes.setSuperset"
    if b == "set.contains(value)":
        return "SRes.contains"
    return "SRes.unknown " + lean_str(b)


def translate_selector(src):
    impl = fn_body(src, re.compile(r"impl Selector\s*\{"))
    sup = fn_body(impl or "", re.compile(r"pub fn is_superset\(&self, other: &Selector\)\s*->\s*bool\s*\{"))
    sel = fn_body(impl or "", re.compile(r"pub fn selects\(&self, value: &String\)\s*->\s*bool\s*\{"))
    rows = None
    if sup is not None:
        rows = []
        m = re.match(r"^match self \{(.*)\}$", norm(sup))
        if not m:
            rows.append(("SPat.unknown " + lean_str(norm(sup)[:80]), "SPat.any", "SRes.unknown " + lean_str("no outer match")))
        else:
            for p, b in split_arms(m.group(1)):
                ps = classify(p, SPATS, "SPat.unknown")
                m2 = re.match(r"^match other \{(.*)\}$", b)
                if m2:
                    for p2, b2 in split_arms(m2.group(1)):
                        rows.append((ps, classify(p2, SPATS, "SPat.unknown"), sres(b2)))
                else:
                    rows.append((ps, "SPat.any", sres(b)))
    srows = None
    if sel is not None:
        m = re.match(r"^if let Selector::Some\(set\) = self \{ (.*) \} else \{ (.*) \}$", norm(sel))
        if m:
            srows = [("SPat.some", sres(m.group(1))), ("SPat.any", sres(m.group(2)))]
        else:
            srows = [("SPat.unknown " + lean_str(norm(sel)[:120]), "SRes.unknown " + lean_str("unrecognised body"))]
    return rows, srows


def main():
    csrc = strip_comments(open(os.path.join(REPO, "src", "model", "context_bag.rs")).read())
    esrc = strip_comments(open(os.path.join(REPO, "src", "nested_env", "mod.rs")).read())
    gsrc = strip_comments(open(os.path.join(REPO, "src", "generate.rs")).read())
    suprows, selrows = translate_selector(gsrc)
    tree, lets = translate_is_allowed(csrc)
    rows = translate_merge(esrc)
    os.makedirs(os.path.dirname(OUT), exist_ok=True)
    with open(OUT, "w") as f:
        f.write("/-! GENERATED by translators/decisions.py from /repo/src/model/context_bag.rs and /repo/src/nested_env/mod.rs on every run — do not edit. -/\n")
        f.write("namespace Laze.Generated\n\n")
        f.write("inductive ACond where\n  | allowSome | blockSome | allowYes | blockYes | allowNo | blockNo | allowDeeper\n  | unknown (text : String)\n  deriving Repr, DecidableEq\n\n")
        f.write("inductive ARet where\n  | block | allow | blocked | allowed\n  | unknown (text : String)\n  deriving Repr, DecidableEq\n\n")
        f.write("inductive ATree where\n  | skip\n  | ret (r : ARet)\n  | ite (c : ACond) (t e : ATree)\n  | seq (a b : ATree)\n  deriving Repr, DecidableEq\n\n")
        f.write("/-- `ContextBag::is_allowed` from its first `if` to the final expression (`none`: function not found) -/\n")
        f.write("def isAllowedTree : Option ATree := " + ("some (" + tree + ")" if tree else "none") + "\n\n")
        f.write("/-- the bindings before the tree -/\n")
        f.write("def isAllowedLets : List String := [" + ", ".join(lean_str(x) for x in lets) + "]\n\n")
        f.write("inductive MPat where\n  | single | list | any\n  | unknown (text : String)\n  deriving Repr, DecidableEq\n\n")
        f.write("inductive MRes where\n  | other | self | appendLists\n  | unknown (text : String)\n  deriving Repr, DecidableEq\n\n")
        f.write("/-- `EnvKey::merge`: (pattern of self, pattern of other, result), first match wins (`none`: function not found) -/\n")
        if rows is None:
            f.write("def envKeyMergeArms : Option (List (MPat × MPat × MRes)) := none\n")
        else:
            f.write("def envKeyMergeArms : Option (List (MPat × MPat × MRes)) := some [\n" + ",\n".join(f"  ({a}, {b}, {c})" for a, b, c in rows) + "]\n")
        f.write("\ninductive SPat where\n  | all | some | any\n  | unknown (text : String)\n  deriving Repr, DecidableEq\n\n")
        f.write("inductive SRes where\n  | true | false | setSuperset | contains\n  | unknown (text : String)\n  deriving Repr, DecidableEq\n\n")
        f.write("/-- `Selector::is_superset`: (pattern of self, pattern of other, result), first match wins -/\n")
        if suprows is None:
            f.write("def selectorSupersetArms : Option (List (SPat × SPat × SRes)) := none\n\n")
        else:
            f.write("def selectorSupersetArms : Option (List (SPat × SPat × SRes)) := some [\n" + ",\n".join(f"  ({a}, {b}, {c})" for a, b, c in suprows) + "]\n\n")
        f.write("/-- `Selector::selects`: `if let Selector::Some(set) = self { .. } else { .. }` as two rows -/\n")
        if selrows is None:
            f.write("def selectorSelectsArms : Option (List (SPat × SRes)) := none\n")
        else:
            f.write("def selectorSelectsArms : Option (List (SPat × SRes)) := some [\n" + ",\n".join(f"  ({a}, {b})" for a, b in selrows) + "]\n")
        f.write("\nend Laze.Generated\n")
    return 0


if __name__ == "__main__":
    sys.exit(main())
