#!/bin/sh
# build /repo's current working tree with the verification hooks on
# (opt-level 1, overflow checks + debug assertions ON so arithmetic underflow panics)
set -e
V=$(cd "$(dirname "$0")" && pwd)
cd "${LAZE_REPO:-/repo}"
CARGO_NET_OFFLINE=true RUSTFLAGS="--cfg kaspar030_laze_verif" exec cargo build --offline --release \
  --target-dir "$V/.build/target" \
  --config 'profile.release.lto="off"' --config 'profile.release.opt-level=1' \
  --config 'profile.release.overflow-checks=true' --config 'profile.release.debug-assertions=true' \
  --config 'profile.release.codegen-units=16' --config 'profile.release.incremental=true' \
  --config 'profile.release.strip=false' "$@"
