"""C13 — variable and expression expansion is total and substitutes exactly."""
import json, random
from . import common, strgen

POLS = ["ignore", "empty", "error"]


def canon(a):
    """canonical form of an answer (errors reduced to a small enum + payload the code defines)"""
    if a is None:
        return {"crash": "noanswer"}
    if "ok" in a:
        return {"ok": a["ok"]}
    if "err" in a:
        e = {"err": a["err"]}
        for k in ("k", "p"):
            if k in a:
                e[k] = a[k]
        return e
    if "panic" in a:
        return {"panic": True}
    if "crash" in a:
        return {"crash": True}
    return a


def gen_cases(seed, n):
    cases = []
    for i in range(n):
        rng = random.Random(seed * 1000003 + i)
        r = rng.random()
        if r < 0.5:
            op = "expand"
        elif r < 0.75:
            op = "expand_eval"
        else:
            op = "eval"
        kind = rng.random()
        s = strgen.gen_plain(rng) if kind < 0.1 else strgen.gen_string(rng)
        c = {"op": op, "s": s, "id": i}
        if op != "eval":
            c["vars"] = strgen.gen_vars(rng)
            c["pol"] = rng.choice(POLS)
        cases.append(c)
    return cases


def with_table(c, table):
    if c["op"] == "expand":
        return c
    d = dict(c)
    d["table"] = [[k, v] for k, v in table.items()]
    return d


def run_model(cases):
    """model answers with the evalexpr table protocol"""
    table = {}
    answers = [None] * len(cases)
    todo = list(range(len(cases)))
    for _round in range(8):
        if not todo:
            break
        res = common.model([with_table(cases[i], table) for i in todo])
        needs = set()
        nxt = []
        for i, a in zip(todo, res):
            if a is not None and "need" in a:
                if isinstance(a["need"], str):
                    needs.add(a["need"])
                    nxt.append(i)
                else:
                    answers[i] = a
            else:
                answers[i] = a
        if needs:
            needs = sorted(needs)
            vals = common.oracle([{"op": "evalexpr", "s": e} for e in needs])
            for e, v in zip(needs, vals):
                table[e] = v["ok"] if v and "ok" in v else None
        todo = nxt
    for i in todo:
        answers[i] = {"need-unresolved": True}
    return answers


def chunk_worker(cases):
    impl = common.oracle(cases)
    mod = run_model(cases)
    return list(zip(cases, impl, mod))


def nontrivial(c):
    s = c["s"]
    return any(m in s for m in ("${", "\\${", "$(", "$$("))


def oracle_checks(chk, c, impl):
    """model-independent property checks on the implementation's answer"""
    s = c["s"]
    ci = canon(impl)
    if "panic" in ci or "crash" in ci:
        # signature: the op and the shape that triggers it (multi-byte next to a marker or not)
        mb = any(ord(ch) > 127 for ch in json.dumps(c, ensure_ascii=False))
        chk.fail_oracle(f"{c['op']}:panic:{'multibyte' if mb else 'ascii'}",
                        f"{c['op']} panics/crashes on {s!r}", {"case": c, "impl": impl})
        return
    if c["op"] == "expand" and "${" not in s:
        if ci != {"ok": s}:
            chk.fail_oracle("expand:identity", f"text without ${{ changed: {s!r} -> {ci}", {"case": c, "impl": impl})
    if c["op"] == "eval" and "$(" not in s:
        if ci != {"ok": s}:
            chk.fail_oracle("eval:identity", f"text without $( changed: {s!r} -> {ci}", {"case": c, "impl": impl})


def directed_cases(seed, n):
    """directed oracle cases: self-reference cycle, literal survival, exact substitution"""
    out = []
    for i in range(n):
        rng = random.Random(seed * 7919 + i)
        k = rng.choice(strgen.KEYS)
        a, b = strgen.gen_plain(rng, 3), strgen.gen_plain(rng, 3)
        # a must not end with a backslash (that would escape the reference)
        a = a.rstrip("\\")
        kind = i % 6
        if kind == 4:
            # a cycle that is closed only AFTER references to unknown names (ignored / emptied): the unknown names must not disturb the
            # cycle guard; with the error policy the missing name is reported first
            u1, u2 = "UNDEF_A", "UNDEF_B"
            pol = rng.choice(["ignore", "empty"])
            b = b.rstrip("\\")
            val = "${" + u1 + "} " + a + " ${" + u2 + "} ${" + k + "}"
            if rng.random() < 0.4:
                # a cycle through two variables
                k2 = rng.choice([x for x in strgen.KEYS if x != k] or [k + "2"])
                out.append(({"op": "expand", "s": "${" + k + "}", "vars": [[k, "${" + u1 + "} ${" + k2 + "}"], [k2, "${" + u2 + "} ${" + u1 + "} ${" + k + "}"]], "pol": pol},
                            {"err": "cycle", "k": k}))
            else:
                out.append(({"op": "expand", "s": b + "${" + k + "}", "vars": [[k, val]], "pol": pol}, {"err": "cycle", "k": k}))
            continue
        if kind == 5:
            # expressions are evaluated independently of each other: an assignment inside one $(...) must not be visible to the next
            # (the requests of a batch run in ONE process, one after the other)
            j = (i // 6) % 3
            e, v = [("$(x = 10; x / 2)", "5"), ("$(x = 1.5; x * 2)", "3"), ("$(y = 4; y + 1)", "5")][j]
            out.append(({"op": "eval", "s": a.replace("$", "") + e}, {"ok": a.replace("$", "") + v}))
            continue
        if kind == 0:
            out.append(({"op": "expand", "s": a + "${" + k + "}" + b, "vars": [[k, "${" + k + "}"]], "pol": rng.choice(POLS)},
                        {"err": "cycle", "k": k}))
        elif kind == 1:
            out.append(({"op": "expand", "s": a + "\\${" + k + "}" + b, "vars": [[k, "v"]], "pol": rng.choice(POLS)},
                        {"ok": a + "${" + k + "}" + b}))
        elif kind == 2:
            v = strgen.gen_plain(rng, 3).replace("\\", "")
            out.append(({"op": "expand", "s": a + "${" + k + "}" + b, "vars": [[k, v]], "pol": rng.choice(POLS)},
                        {"ok": a + v + b}))
        else:
            pol = rng.choice(POLS)
            exp = {"ignore": {"ok": a + "${" + k + "}" + b}, "empty": {"ok": a + b}, "error": {"err": "missing", "k": k}}[pol]
            out.append(({"op": "expand", "s": a + "${" + k + "}" + b, "vars": [], "pol": pol}, exp))
    # `}` inside a/b before the reference is fine; but `\${`-free and `${`-free by construction
    return out


# ---- end-to-end clause: an escaped reference written in an env value, rule or task reaches the command as literal text

def escape_project(seed, i):
    from . import projgen
    rng = random.Random(seed * 2909 + i)
    p = projgen.gen_project(seed + 1300, i, projgen.profile(p_escape=0.0, p_tasks=0.0, p_custom_build=0.0, p_download=0.0, p_cycle=0.0,
                                                            p_varopts=0.0, p_cli_define=0.0, p_hard_missing=0.0, n_apps=(1, 2),
                                                            # the oracle below reads the literal in the commands of the root context's CC / LINK rules:
                                                            # the shape that takes LINK away from the root context does not go with it
                                                            p_no_link_rule_builder=0.0))
    root = p["files"]["laze-project.yml"][0]
    default = __import__("lazeverif.projcheck", fromlist=["x"]).default_context(p)
    # the escaped name is a variable of the project, or one of the LOAD-TIME variables (the early pass must leave their escapes alone too)
    early = rng.choice(["relpath", "root", "srcdir"]) if rng.random() < 0.3 else None
    tag = early or f"LIT{i}"
    where = rng.choice(["context-env", "module-global", "module-local", "rule-cmd", "task-cmd", "rule-export", "rule-export", "list-middle"])
    apps = [m for k, m, path in __import__("lazeverif.projcheck", fromlist=["x"]).yaml_modules(p) if k == "apps"]
    esc = "\\${" + tag + "}"
    if where == "context-env":
        default.setdefault("env", {})["ESCV"] = "pre " + esc + " post"
    elif where == "module-global":
        for a in apps:
            a.setdefault("env", {}).setdefault("global", {})["ESCV"] = [esc, "x"]
    elif where == "module-local":
        for a in apps:
            a.setdefault("env", {}).setdefault("local", {})["ESCV"] = esc
            a.setdefault("sources", []).append("esc_" + a["name"] + ".c")
    elif where == "list-middle":
        # an escaped reference that is neither the first nor the last marker of its string, inside a list element
        default.setdefault("env", {})["ESCV"] = ["${builder} " + esc + " ${app}", "t"]
    # the variable named inside the escape IS defined: a wrong un-escaping would substitute it
    if not early:
        default.setdefault("env", {})[tag] = "SUBSTITUTED"
    for r in default["rules"]:
        if r["name"] in ("LINK", "CC"):
            r["cmd"] = r["cmd"] + " ${ESCV}" + (" " + esc if where == "rule-cmd" else "")
    if where == "rule-export":
        # a rule exporting a value with an escaped reference: the value is expanded when the export is applied and must not be
        # expanded a second time with the command it is glued to
        for r in default["rules"]:
            if r["name"] in ("LINK", "CC"):
                r["export"] = [{"ESCX": "pre " + esc + " post"}] + ([rng.choice(["OPT", "X"])] if rng.random() < 0.5 else [])
    if where == "task-cmd":
        default["tasks"] = {"esc": {"cmd": ["echo " + esc], "build": False}}
    p["_escape"] = {"where": where, "tag": tag}
    return p


def escape_oracle(chk, p, r, m):
    from . import projrun, projcheck
    if projrun.impl_status(r) != "ok":
        return
    tag, where = p["_escape"]["tag"], p["_escape"]["where"]
    lit = "${" + tag + "}"
    chk.count("escape-project:" + where)
    if where == "task-cmd":
        for b in projcheck.built(r):
            for t in b["tasks"]:
                if t[0] == "esc" and t[1] == "ok":
                    if t[2]["cmd"] != ["echo " + lit]:
                        chk.fail_oracle("escape:task", f"task command written as echo \\{lit} became {t[2]['cmd']}", {"project": p})
        return
    text = r["ninja"] or ""
    if "SUBSTITUTED" in text:
        chk.fail_oracle("escape:" + where, f"escaped reference \\{lit} written in {where} was substituted in a generated command", {"project": p})
    elif where == "rule-export":
        if projcheck.built(r) and f'ESCX="pre {lit} post"' not in text:
            chk.fail_oracle("escape:rule-export:lost", f"a rule exporting ESCX: pre \\{lit} post does not produce the assignment ESCX=\"pre {lit} post\" in its command", {"project": p})
    elif projcheck.built(r) and lit not in text and where != "module-local":
        chk.fail_oracle("escape:" + where + ":lost", f"escaped reference \\{lit} written in {where} does not reach any command as literal {lit}", {"project": p})


def run(chk):
    from . import projcheck
    k = 60 if chk.tier == "quick" else 2000
    projcheck.campaign(chk, None, 0, ("status", "decision", "global_env", "module_env", "tasks", "ninja"), escape_oracle, lambda c, p, r, m: True,
                       extra_projects=[escape_project(chk.seed, i) for i in range(k)], label="esc:")
    n = 40000 if chk.tier == "quick" else 1500000
    chk.rule = ("grammar-generated strings (literals, ${k}, \\${k}, $(expr), $$(, stray markers, multi-byte chars adjacent "
                "to markers) x variable maps (self/cyclic references) x 3 policies, ops expand/expand_eval/eval; "
                "non-trivial = the string contains a marker; distinct by canonical JSON of the case")
    cases = gen_cases(chk.seed, n)
    results = common.parallel_map(chunk_worker, cases)
    for c, impl, mod in results:
        chk.note_case({k: v for k, v in c.items() if k != "id"}, nontrivial(c))
        ci, cm = canon(impl), canon(mod)
        chk.count("op:" + c["op"])
        chk.count("result:" + (list(ci.keys())[0] if "err" not in ci else "err-" + ci["err"]))
        if any(ord(ch) > 127 for ch in c["s"]):
            chk.count("multibyte")
        oracle_checks(chk, c, impl)
        chk.disagreements_checked += 1
        if ci != cm:
            chk.fail_disagree(f"{c['op']} {c['s']!r}: impl {ci} model {cm}", {"case": c, "impl": impl, "model": mod})
    # directed oracle cases (implementation vs closed-form expectation, independent of the model)
    d = directed_cases(chk.seed, 2000 if chk.tier == "quick" else 40000)
    impl = common.oracle([c for c, _ in d])
    mod = common.model([c for c, _ in d])
    for (c, exp), a, m in zip(d, impl, mod):
        chk.evaluations += 1
        chk.count("directed")
        if canon(a) != exp:
            if "panic" in canon(a):
                mb = any(ord(ch) > 127 for ch in c["s"])
                chk.fail_oracle(f"expand:panic:{'multibyte' if mb else 'ascii'}", f"expand panics on {c['s']!r}", {"case": c, "impl": a})
            else:
                chk.fail_oracle("expand:directed", f"{c} -> {canon(a)} expected {exp}", {"case": c, "impl": a, "expected": exp})
        if c["op"] == "eval":
            continue          # expression values are a parameter of the model (table protocol): implementation-side expectation only
        chk.disagreements_checked += 1
        if canon(a) != canon(m):
            chk.fail_disagree(f"directed {c['s']!r}: impl {canon(a)} model {canon(m)}", {"case": c, "impl": a, "model": m})
    chk.assumptions = ["evalexpr (external crate) is a parameter of the model; its values are fetched from the implementation",
                       "strings are valid UTF-8 (Rust &str)"]
    return chk.finish()


def replay(chk, path):
    r = json.load(open(path))
    c = r["case"]["case"] if "case" in r.get("case", {}) else r["case"]
    impl = common.oracle([c])[0]
    mod = run_model([c])[0]
    print("impl :", canon(impl))
    print("model:", canon(mod))
    oracle_checks(chk, c, impl)
    if canon(impl) != canon(mod):
        chk.fail_disagree("replay disagrees", {"case": c, "impl": impl, "model": mod})
    chk.note_case(c, True)
    return chk.finish()
