"""C19 — generated and downloaded files are ordered before their users."""
import json
from . import common, projgen, projcheck, projrun, ninjaparse
from .c04 import closure
from .c07 import NOT_COMPILE

PROF = projgen.profile(n_mods=(3, 8), p_dep=0.75, p_custom_build=0.3, p_download=0.25, p_build_dep=0.3, p_global_build_dep=0.15,
                       p_tasks=0.03, p_provides=0.25, p_varopts=0.05, p_optsrc=0.15, p_srcdir=0.05, p_cycle=0.0)
OBS = ("status", "decision", "modules", "loaded", "ninja")


def oracle(chk, p, r, m):
    if projrun.impl_status(r) != "ok" or not r["ninja"]:
        return
    try:
        pn = ninjaparse.parse(r["ninja"])
    except ninjaparse.ParseError:
        return
    prod = ninjaparse.producers(pn)
    # "ordered before": an order-only dependency orders nothing unless some statement of the file produces it (ninja: "missing and no
    # known rule to make it"). Everything laze lists there is a tag file, a custom build output or an alias — all made by the file itself.
    for st in pn["builds"]:
        for o in st["order_only"]:
            if o != "ALWAYS" and o not in prod:
                chk.fail_oracle("order:dep-file-without-producer", f"{st['outs']} waits for {o}, which no statement of the file produces", {"project": p})
                return
    for b in r["dump"]:
        if b["decision"] == "dep-cycle":
            chk.count("dep-cycle-dropped")
            if f"out/{b['builder']}/{b['app']}/{b['app']}.elf" in r["ninja"]:
                chk.fail_oracle("order:cycle-emitted", f"{b['builder']}/{b['app']} has a build-dependency cycle but statements were emitted", {"project": p})
    for b in projcheck.built(r):
        key = (b["builder"], b["app"])
        if len(prod.get(b["outfile"], [])) != 1 or ninjaparse.ambiguous(pn, b["outfile"], prod):
            chk.count("skipped:outfile-has-several-producers (C06)")
            continue
        names = [x["name"] for x in b["modules"]]
        mods = {x["name"]: x for x in b["modules"]}
        globals_ = [x for x in b["modules"] if x["is_global_build_dep"]]
        # the statements of this build: closure of the output file
        seen, todo, sts = set(), [b["outfile"]], []
        while todo:
            t = todo.pop()
            if t in seen:
                continue
            seen.add(t)
            for st in prod.get(t, []):
                if st not in sts:
                    sts.append(st)
                todo += st["inputs"] + st["order_only"]
        comp = [st for st in sts if st["rule"] != "phony" and not st["rule"].startswith(NOT_COMPILE) and len(st["inputs"]) == 1]
        custom = {}
        for st in sts:
            if st["rule"].startswith("BUILD_"):
                for o in st["outs"]:
                    custom[o] = st
        aliases = {st["outs"][0]: st for st in sts if st["rule"] == "phony" and st["outs"][0].startswith("outs_")}

        def exported(d):
            """files the build dep d exports: declared/tag files and the alias of its custom build outs"""
            fs = list(d.get("build_dep_files") or [])
            return fs

        link0 = list(prod.get(b["outfile"], []))
        if link0 and link0[0]["rule"].startswith("POST_LINK_"):
            link0 = prod.get(link0[0]["inputs"][0], [])
        global_aliases = [o for o in (link0[0]["order_only"] if link0 else []) if o in aliases]
        for x in b["modules"]:
            if x["srcdir"] is None or x["has_build"]:
                continue
            cl = [mods[n] for n in closure(mods, names, x["name"], set()) if n != x["name"]]
            need = []
            for d in cl:
                if d["is_build_dep"]:
                    need.append((d["name"], exported(d), d["has_build"]))
            if not x["is_global_build_dep"]:
                for g in globals_:
                    if g["name"] != x["name"]:
                        need.append((g["name"], exported(g), g["has_build"]))
            if not need:
                continue
            srcs = [(x["srcdir"] + "/" + s if x["srcdir"] else s) for s in x["sources"] if "${" not in s and "${" not in (x["srcdir"] or "")]
            def failure(st):
                """the first requirement the compile statement `st` of module x misses, or None"""
                if not x["is_global_build_dep"]:
                    for ga in global_aliases:
                        if ga not in st["order_only"]:
                            return ("order:global-custom-outs-missing", f"{key}: {st['inputs'][0]} of {x['name']} does not wait for {ga} (outputs of a global build dep the link waits for)")
                for dn, files, has_build in need:
                    for f in files:
                        if f not in st["order_only"]:
                            return ("order:dep-file-missing", f"{key}: {st['inputs'][0]} of {x['name']} does not list {f} of build dep {dn} as order-only dependency")
                    if has_build and not any(o in aliases for o in st["order_only"]):
                        return ("order:custom-outs-missing", f"{key}: {st['inputs'][0]} of {x['name']} does not depend on the outputs of custom build {dn}")
                return None
            for src in srcs:
                sts_for = [st for st in comp if st["inputs"][0] == src]
                if not sts_for:
                    continue
                chk.count("compile-with-build-deps")
                # a source listed by several modules of the build is compiled once per module (different environments / dependencies):
                # which statement belongs to x cannot be told from the file, so one of them has to satisfy x's requirements
                fails = [failure(st) for st in sts_for]
                if all(f is not None for f in fails):
                    if len(sts_for) > 1:
                        chk.count("source-shared-by-several-modules")
                    chk.fail_oracle(fails[0][0], fails[0][1], {"project": p, "build": list(key)})
                    return
        # the link depends on the global build deps' files
        link = [st for st in prod.get(b["outfile"], [])]
        if link and link[0]["rule"].startswith("POST_LINK_"):
            link = prod.get(link[0]["inputs"][0], [])
        for g in globals_:
            for f in exported(g):
                if link and f not in link[0]["order_only"]:
                    chk.fail_oracle("order:link-global-dep-missing", f"{key}: link does not list {f} of global build dep {g['name']}", {"project": p})
                    return
        # sources inside a download directory are produced (phony) by the download step
        for x in b["modules"]:
            if x["has_download"] and x["srcdir"]:
                for s in x["sources"]:
                    sp = x["srcdir"] + "/" + s
                    if "${" in sp:
                        continue
                    if any(st["inputs"][0] == sp for st in comp) and sp not in prod:
                        chk.fail_oracle("order:downloaded-source-not-declared", f"{key}: {sp} is compiled but no statement produces it", {"project": p})
                        return
                    if sp in prod:
                        chk.count("downloaded-source-declared")


def nontrivial(chk, p, r, m):
    for b in projcheck.built(r):
        with_src = [x for x in b["modules"] if x["sources"] and x["srcdir"] is not None]
        if len(with_src) >= 2 and any(x["is_build_dep"] or x["is_global_build_dep"] for x in b["modules"]):
            return True
    return False


def run(chk):
    n = 900 if chk.tier == "quick" else 8000
    chk.rule = ("random projects with download / custom build / is_build_dep / is_global_build_dep modules in arbitrary uses/depends graphs; whole "
                "ninja file compared with the model's; oracle recomputes the users-closure from the dumped imports and checks the order-only (|) "
                "section of every compile statement and of the link, phony declarations of downloaded sources, and that dep-cycle builds are "
                "dropped; non-trivial = a configured build with >=2 modules with sources and a build-dep module; distinct by project hash")
    projcheck.campaign(chk, PROF, n, OBS, oracle, nontrivial)
    return chk.finish()


def replay(chk, path):
    return projcheck.replay_project(chk, path, OBS, oracle)
