"""Generic whole-project campaign: generate projects, run implementation + model, compare on the
observables a property talks about, run the property's own oracle on the implementation's output."""
import json, hashlib
from . import common, projgen, projrun


def phash(p):
    return hashlib.sha256(json.dumps(p, sort_keys=True).encode()).hexdigest()[:16]


def yaml_modules(project):
    """yield (kind, module-dict, path) for every module/app in the project files"""
    for path, docs in project["files"].items():
        for doc in docs:
            for kind in ("modules", "apps"):
                for m in doc.get(kind) or []:
                    yield kind, m, path


def default_context(project):
    """the YAML dict of the context named `default` (it need not be the first one written, nor be in the first document)"""
    for path, docs in project["files"].items():
        for doc in docs:
            if not isinstance(doc, dict) or not isinstance(doc.get("contexts"), list):
                continue
            for c in doc["contexts"]:
                if isinstance(c, dict) and c.get("name") == "default":
                    return c
    root = project["files"]["laze-project.yml"][0]
    if isinstance(root, dict) and isinstance(root.get("contexts"), list) and root["contexts"] and isinstance(root["contexts"][0], dict):
        return root["contexts"][0]
    return {}            # a (mutated) project without a usable context list: edits to the returned dict are dropped


def deps_of(mod):
    """dump-format deps ['h', n] ... of a dumped module"""
    return mod.get("selects", [])


def built(r):
    return [b for b in r.get("dump", []) if b.get("decision") == "built"]


def campaign(chk, prof, n, observables, oracle=None, nontrivial=None, label="", seed_shift=0, extra_projects=(), keep_status=("ok",)):
    """returns list of (project, impl, model) for further use"""
    corpus = [c["project"] for c in common.load_corpus(chk.prop) if "project" in c and not c.get("pair")] if not label else []
    chk.count("corpus-cases", len(corpus)) if corpus else None
    projects = corpus + list(extra_projects) + [projgen.gen_project(chk.seed + seed_shift, i, prof) for i in range(n)]
    results = projrun.run_projects(projects)
    for p, r, m in results:
        st = projrun.impl_status(r)
        chk.count(f"{label}status:{st}/{projrun.model_status(m)}")
        nt = False
        if nontrivial is not None:
            try:
                nt = nontrivial(chk, p, r, m)
            except Exception as e:      # an oracle bug must not look like a pass
                chk.fail_disagree(f"nontrivial() raised {e!r}", {"project": p})
        chk.evaluations += 1
        if nt:
            chk.nontrivial.add(phash(p))
            if len(chk.samples) < 2:
                chk.samples.append({"project": p, "status": st,
                                    "builds": [(b["builder"], b["app"], b["decision"]) for b in r.get("dump", [])]})
        diffs = projrun.compare(r, m, observables)
        chk.disagreements_checked += 1
        for obs, what in diffs[:1]:
            chk.fail_disagree(f"{obs}: {what}", {"project": p, "observable": obs, "what": what})
        if oracle is not None:
            oracle(chk, p, r, m)
    return results


def replay_project(chk, path, observables, oracle=None):
    r0 = json.load(open(path))
    p = r0["case"]["project"] if "case" in r0 and "project" in r0["case"] else r0.get("project")
    (p, r, m), = projrun.worker([p])
    print("impl status :", projrun.impl_status(r))
    print("model status:", projrun.model_status(m))
    for d in projrun.compare(r, m, observables):
        print("diff:", d)
        chk.fail_disagree(f"{d[0]}: {d[1]}", {"project": p})
    if oracle is not None:
        oracle(chk, p, r, m)
    chk.note_case({"project": p}, True)
    return chk.finish()
