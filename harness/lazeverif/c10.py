"""C10 — a build's statements do not depend on what else was selected."""
import copy, random
from . import common, projgen, projcheck, projrun, ninjaparse

PROF = projgen.profile(p_app_dup=0.4, p_rule_field_variant=0.3, n_builders=(2, 4), n_apps=(2, 3), p_subdir=0.6, p_partition=0.5, p_local=0.3, p_cli_builders=0.4, p_cli_apps=0.4,
                       p_tasks=0.05, p_custom_build=0.1, p_build_dep=0.2, p_download=0.05, p_nobindir=0.0)
OBS = ("status", "decision", "modules", "loaded", "ninja")


DOWNLOADERS = set()     # names of the modules of the project under test that download (set by judge)


def closures(r):
    """(builder, app) -> tuple of statement texts reachable from the build's output file"""
    if projrun.impl_status(r) != "ok" or not r["ninja"]:
        return None
    pn = ninjaparse.parse(r["ninja"])
    out = {}
    prod = ninjaparse.producers(pn)
    for b in projcheck.built(r):
        if ninjaparse.ambiguous(pn, b["outfile"], prod):
            # several builds write one ${outfile} (C06 known finding "outfile-collision"): the statements of one build cannot be told apart
            out[(b["builder"], b["app"])] = None
            continue
        cl = ninjaparse.closure(pn, b["outfile"])
        # a build that compiles a file lying in the download directory of a module it does NOT select: the statements that declare
        # such a file as a product of that download are written by the builds that do select the downloader; they are those
        # builds' statements, reached here only through the shared file name
        absent = DOWNLOADERS - {x["name"] for x in b["modules"]}
        if absent:
            def foreign(t):
                if not t.startswith("build "):
                    return False
                parts = ninjaparse.canon(t[len("build "):].split(":", 1)[0].split(" ")[0]).split("/")
                return len(parts) > 2 and parts[1] == "dl" and parts[2] in absent        # <build-dir>/dl/<downloader>/...
            cl = [t for t in cl if not foreign(t)]
        out[(b["builder"], b["app"])] = tuple(sorted(cl))
    return out


def warm_view(r, r0):
    """a run made in the build directory of the unrestricted run r0 (possibly served from its cache: no dump): its configured builds
    are the builds of r0 whose output file is a target of the ninja file the run left"""
    if projrun.impl_status(r) != "ok" or not r["ninja"]:
        return r
    pn = ninjaparse.parse(r["ninja"])
    prod = ninjaparse.producers(pn)
    v = dict(r)
    v["dump"] = [b for b in r0["dump"] if b["decision"] == "built" and b["outfile"] in prod]
    return v


def tuples(r):
    # one tuple per (builder, definition of an app): an app name may be defined in several contexts
    return sorted((b["builder"], b["app"], b.get("app_context") or "") for b in r.get("dump", []))


def variants(p, rng, r0):
    """argument vectors derived from the unrestricted run"""
    blds = sorted({b["builder"] for b in r0["dump"]})
    apps = sorted({b["app"] for b in r0["dump"]})
    base = {k: v for k, v in p["args"].items() if k in ("select", "disable", "define")}
    vs = []
    if blds and apps:
        for _ in range(2):
            a = dict(base)
            if rng.random() < 0.8:
                a["builders"] = rng.sample(blds, rng.randint(1, len(blds)))
            if rng.random() < 0.8:
                a["apps"] = rng.sample(apps, rng.randint(1, len(apps)))
            vs.append(("subset", a))
    n = rng.randint(2, 4)
    for k in range(1, n + 1):
        # count: and hash: shards of the same index one after the other (in a warm directory the second must not be served from the first)
        vs.append((f"partition", dict(base, partition=f"count:{k}/{n}")))
        vs.append((f"hpartition", dict(base, partition=f"hash:{k}/{n}")))
    dirs = sorted({(path.rsplit("/", 1)[0] if "/" in path else ".") for path in p["files"]})
    for d in dirs:
        vs.append(("local", dict(base, local=d)))
    return vs, n


def one_project(job):
    p, seed = job
    rng = random.Random(seed)
    p0 = copy.deepcopy(p)
    p0["args"] = {k: v for k, v in p["args"].items() if k in ("select", "disable", "define")}
    r0 = projrun.run_impl(p0)
    if projrun.impl_status(r0) != "ok":
        return (p0, r0, [], 0)
    vs, n = variants(p0, rng, r0)
    out = []
    warm = rng.random() < 0.5
    if warm:
        # subsets and partitions run in the build directory of (and after) the unrestricted run: "whether laze was asked for all builds,
        # for a subset ... or a partition" must not depend on what an earlier, wider run left in the cache
        seq = [(kind, a) for kind, a in vs if kind in ("subset", "partition", "hpartition")]
        try:
            rs = projrun.run_impl_seq(p0, [p0["args"]] + [a for _, a in seq])
            for (kind, a), r in zip(seq, rs[1:]):
                v = warm_view(r, r0)
                if kind == "hpartition":
                    # the same shard from an empty build directory: the set of builds must be the same
                    rc = projrun.run_impl(dict(p0, args=a))
                    v["cold_tuples"] = sorted((b["builder"], b["app"], b.get("app_context") or "") for b in rc.get("dump", []) if b["decision"] == "built")
                out.append((kind + "@warm", a, v))
        except ninjaparse.ParseError:
            pass
        vs = [(kind, a) for kind, a in vs if kind == "local"]
    for kind, a in vs:
        q = dict(p0, args=a)
        out.append((kind, a, projrun.run_impl(q)))
    loc = [a for kind, a in vs if kind == "local"]
    if len(loc) >= 2 and rng.random() < 0.6:
        # local mode from directory X, then Y, then X again in ONE build directory, nothing edited in between: what the third run
        # leaves must be X's builds again (the local ninja file is shared by all start directories)
        x, y = rng.sample(loc, 2)
        try:
            rs = projrun.run_impl_seq(p0, [x, y, x])
            v = warm_view(rs[2], r0)
            v["first_tuples"] = sorted((b["builder"], b["app"], b.get("app_context") or "") for b in rs[0].get("dump", []) if b["decision"] == "built")
            out.append(("localagain", x, v))
        except ninjaparse.ParseError:
            pass
    if loc and rng.random() < 0.6:
        # local mode with a partition: the slices of the tuples of ONE start directory are disjoint and cover what the
        # unpartitioned local run from that directory configures
        x = rng.choice(loc)
        n2 = rng.randint(2, 3)
        kind2 = rng.choice(["count", "count", "hash"])
        whole = projrun.run_impl(dict(p0, args=x))
        parts = [projrun.run_impl(dict(p0, args=dict(x, partition=f"{kind2}:{k}/{n2}"))) for k in range(1, n2 + 1)]
        whole["local_parts"] = parts
        out.append(("localparts", dict(x, partition=f"{kind2}:*/{n2}"), whole))
    if "sub1/deep/laze.yml" in p0["files"] and "sub1/laze.yml" in p0["files"] and rng.random() < 0.7:
        # the same tree with the nested directory listed from the root as `sub1/deep` and as `sub1//deep` / `sub1/./deep`: a start
        # directory is a directory, however the listing spelled it (implementation-side metamorphic check; the model keeps the spelling)
        def relisted(spelling):
            q = copy.deepcopy(p0)
            for d in q["files"]["sub1/laze.yml"]:
                if isinstance(d.get("subdirs"), list):
                    d["subdirs"] = [x for x in d["subdirs"] if x != "deep"]
                    if not d["subdirs"]:
                        del d["subdirs"]
            root = q["files"]["laze-project.yml"][0]
            root["subdirs"] = list(root.get("subdirs") or []) + [spelling]
            return q
        plain = projrun.run_impl(dict(relisted("sub1/deep"), args=dict(p0["args"], local="sub1/deep")))
        odd_spelling = rng.choice(["sub1//deep", "sub1/./deep", "sub1/deep/", "sub1/deep/."])
        odd = projrun.run_impl(dict(relisted(odd_spelling), args=dict(p0["args"], local="sub1/deep")))
        odd["plain_listing"] = plain
        out.append(("respelled", {"local": "sub1/deep", "subdirs": odd_spelling}, odd))
    if loc and rng.random() < 0.5:
        # an explicit relative --build-dir is a path below the project root wherever laze is started: local mode from a
        # sub-directory writes the same statements as global mode with the same --build-dir
        rb = projrun.run_impl(dict(p0, args=dict(p0["args"], build_dir="out")))
        a = dict(rng.choice(loc), build_dir="out")
        r = projrun.run_impl(dict(p0, args=a))
        r["global_same_build_dir"] = rb
        out.append(("localB", a, r))
    return (p0, r0, out, n)


def worker(jobs):
    return [one_project(j) for j in jobs]


def judge(chk, p0, r0, vs, n):
    DOWNLOADERS.clear()
    DOWNLOADERS.update(m["name"] for kind, m, path in projcheck.yaml_modules(p0) if isinstance(m, dict) and m.get("download") and m.get("name"))
    if projrun.impl_status(r0) != "ok":
        chk.count("base-not-ok")
        return
    try:
        c0 = closures(r0)
    except ninjaparse.ParseError:
        return
    t0 = tuples(r0)
    part_tuples = []
    hpart_tuples = []
    nt = False
    warm = any(kind.endswith("@warm") for kind, a, r in vs)
    t0_part = t0
    if warm:
        # warm partition runs are observed through the ninja file: configured builds only
        t0_part = sorted((b["builder"], b["app"], b.get("app_context") or "") for b in r0["dump"] if b["decision"] == "built")
    for kind, a, r in vs:
        chk.count("variant:" + kind + (":cache-hit" if r.get("hit") else ""))
        kind = kind.split("@")[0]
        chk.evaluations += 1
        st = projrun.impl_status(r)
        if kind == "localB":
            rb = r["global_same_build_dir"]
            if projrun.impl_status(rb) != "ok" or st != "ok":
                continue
            if r["ninja"] is None:
                chk.fail_oracle("indep:build-dir-depends-on-start-dir", f"{a}: no out/build-local.ninja below the project root", {"project": p0, "args": a})
                return
            try:
                cb, cl = closures(rb), closures(r)
            except ninjaparse.ParseError:
                continue
            for k, stmts in cl.items():
                if stmts is not None and cb.get(k) is not None and stmts != cb[k]:
                    chk.fail_oracle("indep:build-dir-depends-on-start-dir", f"{a}: statements of {k} differ from the global run with the same --build-dir",
                                    {"project": p0, "args": a, "build": list(k)})
                    return
            continue
        if kind == "respelled":
            pl = r["plain_listing"]
            if projrun.impl_status(pl) != st or (st == "ok" and tuples(pl) != tuples(r)):
                chk.fail_oracle("indep:start-dir-spelling", f"local mode from sub1/deep: listed as `{a['subdirs']}` the run is {st} and configures {tuples(r)}, "
                                f"listed as `sub1/deep` it is {projrun.impl_status(pl)} and configures {tuples(pl)}", {"project": p0, "args": a})
                return
            continue
        if kind == "localparts":
            if st != "ok":
                continue
            parts = r["local_parts"]
            if any(projrun.impl_status(x) != "ok" for x in parts):
                chk.fail_oracle("indep:variant-fails", f"{a}: a slice of a local run fails although the unpartitioned local run succeeds", {"project": p0, "args": a})
                return
            flat = [t for x in parts for t in tuples(x)]
            if len(flat) != len(set(flat)):
                chk.fail_oracle("indep:local-partitions-overlap", f"{a}: the slices of the local run overlap: {[tuples(x) for x in parts]}", {"project": p0, "args": a})
                return
            if sorted(flat) != tuples(r):
                chk.fail_oracle("indep:local-partitions-not-covering", f"{a}: union of the slices {sorted(flat)} != the unpartitioned local run {tuples(r)}", {"project": p0, "args": a})
                return
            continue
        if kind == "localagain":
            if st == "ok" and tuples(r) != r["first_tuples"]:
                chk.fail_oracle("indep:local-depends-on-earlier-run", f"local run from {a.get('local')!r} after a run from another directory leaves "
                                f"{tuples(r)} in the local ninja file; the same run before it configured {r['first_tuples']}", {"project": p0, "args": a})
                return
            if st != "ok":
                continue
        if st != "ok":
            # a restricted run may only fail if the unrestricted one did (it did not)
            if kind == "local" and "not defined in the current directory" in (r["stderr"] or ""):
                continue
            chk.fail_oracle("indep:variant-fails", f"{kind} {a}: {st} although the unrestricted run succeeds: {(r['stderr'] or '')[-200:]}",
                            {"project": p0, "args": a})
            return
        c = closures(r)
        for k, cl in c.items():
            if k not in c0:
                chk.fail_oracle("indep:extra-build", f"{kind} {a}: build {k} is configured only in the restricted run", {"project": p0, "args": a})
                return
            if cl is None or c0[k] is None:
                chk.count("skipped:outfile-with-several-producers")
                continue
            if cl != c0[k]:
                nt = True
                chk.fail_oracle("indep:statements-differ", f"{kind} {a}: statements of {k} differ from the unrestricted run", {"project": p0, "args": a, "build": list(k)})
                return
        # every build of the unrestricted run that the variant selects must be configured
        sel_b = a.get("builders")
        sel_a = a.get("apps")
        if kind == "subset":
            for k in c0:
                if (sel_b is None or k[0] in sel_b) and (sel_a is None or k[1] in sel_a) and k not in c:
                    chk.fail_oracle("indep:missing-build", f"{kind} {a}: build {k} is not configured", {"project": p0, "args": a})
                    return
            if c:
                nt = True
        if kind == "partition":
            part_tuples.append(tuples(r))
        if kind == "hpartition":
            hpart_tuples.append(tuples(r))
            if "cold_tuples" in r and tuples(r) != r["cold_tuples"]:
                chk.fail_oracle("indep:partition-depends-on-earlier-run", f"{a}: in the build directory of earlier runs the shard configures {tuples(r)}, "
                                f"with an empty build directory {r['cold_tuples']}", {"project": p0, "args": a})
                return
        if kind == "local":
            mods_here = {b["app"] for b in r["dump"]}
            if c:
                nt = True
    if part_tuples:
        flat = [t for pt in part_tuples for t in pt]
        if len(flat) != len(set(flat)):
            chk.fail_oracle("indep:partitions-overlap", f"count:1..{n}/{n} partitions overlap: {part_tuples}", {"project": p0})
            return
        if sorted(flat) != t0_part:
            chk.fail_oracle("indep:partitions-not-covering", f"union of count:k/{n} partitions {sorted(flat)} != unpartitioned {t0_part}", {"project": p0})
            return
    if hpart_tuples:
        flat = [t for pt in hpart_tuples for t in pt]
        if len(flat) != len(set(flat)):
            chk.fail_oracle("indep:hash-partitions-overlap", f"hash:1..{n}/{n} partitions overlap: {hpart_tuples}", {"project": p0})
            return
        if sorted(flat) != t0_part:
            chk.fail_oracle("indep:hash-partitions-not-covering", f"union of hash:k/{n} partitions {sorted(flat)} != unpartitioned {t0_part}", {"project": p0})
            return
    # local runs: union over directories = all apps
    loc = [tuples(r) for kind, a, r in vs if kind == "local" and projrun.impl_status(r) == "ok"]      # (the cold ones)
    if loc and sorted(t for l in loc for t in l) != t0:
        chk.fail_oracle("indep:local-not-covering", f"union of local runs {sorted(t for l in loc for t in l)} != global {t0}", {"project": p0})
    if nt and len(c0) >= 2:
        chk.nontrivial.add(projcheck.phash(p0))
        if len(chk.samples) < 2:
            chk.samples.append({"project": p0, "variants": [[k, a] for k, a, _ in vs]})


def run(chk):
    n = 60 if chk.tier == "quick" else 1500
    chk.rule = ("random multi-builder/multi-app projects with sub-directories; (1) model correspondence with --builders/--apps/--partition/"
                "local-mode arguments; (2) metamorphic on the implementation: unrestricted run vs random builder/app subsets, every "
                "count:k/N partition (N in 2..4) and local mode from every directory: per build, the statements reachable from its output "
                "file must be identical; partitions and directories must be disjoint and cover the unrestricted tuple list; non-trivial = "
                ">=2 configured builds and a restricted run that configures some of them; distinct by project hash")
    projcheck.campaign(chk, PROF, 200 if chk.tier == "quick" else 5000, OBS, None, lambda c, p, r, m: False, label="corr:")
    jobs = [(projgen.gen_project(chk.seed + 500, i, PROF), chk.seed * 977 + i) for i in range(n)]
    for p0, r0, vs, k in common.parallel_map(worker, jobs):
        judge(chk, p0, r0, vs, k)
    chk.assumptions = ["hash: partitions are covered by the theorem for an abstract hash function only (XxHash64 is not modelled)"]
    return chk.finish()


def replay(chk, path):
    import json
    r0 = json.load(open(path))
    p = r0["case"]["project"]
    if "args" in r0["case"]:
        p0, rr, vs, n = one_project((p, 1))
        judge(chk, p0, rr, vs, n)
        chk.note_case({"project": p}, True)
        return chk.finish()
    return projcheck.replay_project(chk, path, OBS, None)
