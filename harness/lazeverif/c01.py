"""C01 — every configured build is closed under its hard dependencies."""
from . import common, projgen, projcheck, projrun

PROF = projgen.profile(p_dep=0.7, p_soft=0.35, p_ifthen=0.3, p_provides=0.4, p_unique=0.2, p_conflicts=0.25,
                       p_ctx_select=0.3, p_ctx_disable=0.2, p_cli_select=0.45, p_cli_disable=0.3,
                       p_tasks=0.1, p_custom_build=0.03, p_download=0.03, p_varopts=0.05)
OBS = ("status", "decision", "modules", "loaded")


def sat(n, names, mods):
    return n in names or any(n in (x.get("provides") or []) for x in mods)


def closure_violations(b):
    mods = b["modules"]
    names = {x["name"] for x in mods}
    bad = []
    for x in mods:
        for d in x["selects"]:
            if d[0] == "h" and not sat(d[1], names, mods):
                bad.append((x["name"], d))
            elif d[0] == "ih" and d[1] in names and not sat(d[2], names, mods):
                bad.append((x["name"], d))
    return bad


def features(b):
    """what makes a resolved build interesting"""
    mods = b["modules"]
    names = {x["name"] for x in mods}
    f = set()
    for x in mods:
        for d in x["selects"]:
            if d[0] == "s" and not sat(d[1], names, mods):
                f.add("optional-failed")
            if d[0] in ("ih", "is") and d[1] in names:
                f.add("ifthen-active")
            n = d[-1]
            if d[0] in ("h", "s") and n not in names and sat(n, names, mods):
                f.add("via-provider")
        if x.get("conflicts"):
            f.add("conflicts")
    if b.get("disabled0"):
        f.add("disabled")
    return f


def oracle(chk, p, r, m):
    if projrun.impl_status(r) != "ok":
        return
    for b in r["dump"]:
        if b["decision"] == "built":
            bad = closure_violations(b)
            for f in features(b):
                chk.count("feature:" + f)
            if bad:
                chk.fail_oracle("closure:missing-hard-dep",
                                f"build {b['builder']}/{b['app']} is configured but {bad[0][0]} lacks its dependency {bad[0][1]}",
                                {"project": p, "build": [b["builder"], b["app"]], "missing": bad[:3]})
        elif b["decision"] == "unresolved":
            chk.count("unresolved")
            # an unresolvable build must not be emitted: generated projects link every build into out/<builder>/<app>/<app>.elf
            # (the exact file: an app named `a0/v` lives below out/<builder>/a0/ too)
            if r["ninja"] and f"out/{b['builder']}/{b['app']}/{b['app']}.elf" in r["ninja"]:
                chk.fail_oracle("closure:unresolved-emitted", f"unresolved build {b['builder']}/{b['app']} has statements in the ninja file",
                                {"project": p, "build": [b["builder"], b["app"]]})


def nontrivial(chk, p, r, m):
    return any(b["decision"] == "built" and features(b) for b in r.get("dump", []))


RULE = ("random projects (context trees, shadowed modules, hard/soft/if-then deps, provides, provides_unique, conflicts, context "
        "selects/disables, CLI select/disable) through the real CLI; compared with the model on decision + ordered module list; "
        "non-trivial = some configured build has a failed optional dependency, an active if-then dependency, a dependency satisfied "
        "through a provider, conflicts or an initial disabled set; distinct by project hash")


def run(chk):
    n = 1200 if chk.tier == "quick" else 12000
    chk.rule = RULE
    projcheck.campaign(chk, PROF, n, OBS, oracle, nontrivial)
    chk.assumptions = ["closure oracle evaluated on the implementation's own dump (selected modules with their loaded selects/provides)"]
    return chk.finish()


def replay(chk, path):
    return projcheck.replay_project(chk, path, OBS, oracle)
