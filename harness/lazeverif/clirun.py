"""Scenario runner for the properties about what laze *does* after generation (C16, C18, C08, C20):
real CLI runs in a scratch project with stand-in `ninja` and `sh` executables that log their
invocation and exit with scripted codes."""
import json, os, shutil, stat, subprocess, tempfile
from . import common, projrun

FAKE_NINJA = """#!/bin/dash
printf 'N:%s\\n' "$*" >> "$SPAWNLOG"
# "build" the targets as ninja would: every target file is created, except the last one when the scripted verdict is a failure
# (a real ninja with -k N leaves the outputs of the edges that succeeded). laze must not look at them.
rc=${FAKE_NINJA_RC:-0}
n=0; skip=0
for a in "$@"; do
  if [ $skip = 1 ]; then skip=0; continue; fi
  case "$a" in -f|-j|-k|-t) skip=1;; -*) ;; */*) n=$((n+1));; esac
done
i=0; skip=0
for a in "$@"; do
  if [ $skip = 1 ]; then skip=0; continue; fi
  case "$a" in
    -f|-j|-k|-t) skip=1;;
    -*) ;;
    */*) i=$((i+1)); if [ "$rc" = 0 ] || [ $i -lt $n ]; then mkdir -p "$(dirname "$a")" && : > "$a"; fi;;
  esac
done
if [ "$rc" = kill ]; then kill -KILL $$; fi
exit $rc
"""
# logs cwd, selected exported variables and argv; fails when the command text contains FAILME, dies from SIGKILL when it contains KILLME
FAKE_SH = """#!/bin/dash
printf 'S:%s|X=%s|Y=%s|CFLAGS=%s|%s\\n' "$(pwd)" "${X-<unset>}" "${Y-<unset>}" "${CFLAGS-<unset>}" "$*" >> "$SPAWNLOG"
case "$2" in *FAILME*) exit 1;; *KILLME*) kill -KILL $$;; esac
exit 0
"""


def make_fakebin(d, with_ninja=True, with_sh=True):
    fb = os.path.join(d, ".fakebin")
    os.makedirs(fb, exist_ok=True)
    for name, body, on in (("ninja", FAKE_NINJA, with_ninja), ("sh", FAKE_SH, with_sh)):
        p = os.path.join(fb, name)
        if on:
            with open(p, "w") as f:
                f.write(body)
            os.chmod(p, 0o755)
        elif os.path.exists(p):
            os.remove(p)
    return fb


class Scenario:
    """a scratch project directory that lives across several laze invocations"""

    def __init__(self, project):
        os.makedirs(projrun.SCRATCH, exist_ok=True)
        self.d = tempfile.mkdtemp(prefix="s", dir=projrun.SCRATCH)
        self.root = os.path.realpath(self.d)
        self.project = project
        projrun.write_project(self.d, project["files"])
        os.makedirs(os.path.join(self.d, "wd"), exist_ok=True)
        self.fb = make_fakebin(self.d)
        self.log = os.path.join(self.d, ".spawn.log")

    def close(self):
        shutil.rmtree(self.d, ignore_errors=True)

    def invoke(self, inv, extra_env=None, timeout=240):
        # histories: a killed-and-repeated run would be an event of its own, so no retry here but a timeout that a loaded machine does not reach
        """inv: dict(args, flags, task, task_args, ninja_rc, subcommand, no_ninja, cwd)"""
        if os.path.exists(self.log):
            os.remove(self.log)
        make_fakebin(self.d, with_ninja=not inv.get("no_ninja"))
        # without a stand-in ninja the lookup must fail: keep only directories that have no ninja
        base = [p for p in os.environ.get("PATH", "").split(":") if p and not os.path.exists(os.path.join(p, "ninja"))]
        env = {"PATH": self.fb + ":" + ":".join(base), "SPAWNLOG": self.log, "FAKE_NINJA_RC": str(inv.get("ninja_rc", 0))}
        if extra_env:
            env.update(extra_env)
        fl = inv.get("flags", {})
        more = []
        if fl.get("jobs") is not None:
            more += ["-j", str(fl["jobs"])]
        if fl.get("keep_going") is not None:
            more += ["-k", str(fl["keep_going"])]
        if fl.get("multiple"):
            more += ["-m"]
        if fl.get("info_export"):
            more += ["--info-export", fl["info_export"]]
        if fl.get("compile_commands"):
            more += ["--compile-commands"]
        pre = ["-v"] * fl.get("verbose", 0)
        args = inv.get("args", {})
        if inv.get("subcommand") == "clean":
            cmd = [common.LAZE, "-C", self.d] + pre + ["-g", "clean"] + (["-u"] if inv.get("unused") else [])
            e = dict(os.environ); e.update(env)
            p = subprocess.run(cmd, env=e, stdout=subprocess.PIPE, stderr=subprocess.PIPE, timeout=timeout)
            r = {"rc": p.returncode, "stdout": p.stdout.decode("utf-8", "replace"), "stderr": p.stderr.decode("utf-8", "replace")}
        else:
            task = None
            if inv.get("task"):
                task = [inv["task"]] + list(inv.get("task_args") or [])
            r = projrun.run_laze(self.d, args, extra_env=env, generate_only=bool(fl.get("generate_only")),
                                 more=tuple(pre_flags(pre) + more), task=task, timeout=timeout, retry=False)
        r["dump"] = projrun.read_dump(self.d)
        r["spawns"] = open(self.log).read().splitlines() if os.path.exists(self.log) else []
        r["cache_hit"] = "laze: reading cache took" in r["stdout"]
        nf = os.path.join(self.d, "build", "build-global.ninja")
        r["ninja"] = open(nf).read() if os.path.exists(nf) else None
        return r

    def model_request(self, inv, cache_args=None):
        req = projrun.to_request(self.project, self.root)
        req["op"] = "run"
        req["args"] = inv.get("args", {})
        if cache_args is not None:
            req["cache_args"] = cache_args
        req["flags"] = inv.get("flags", {})
        if inv.get("task"):
            req["task"] = inv["task"]
            req["task_args"] = list(inv.get("task_args") or [])
        req["ninja_rc"] = inv.get("ninja_rc", 0)
        req["fail_markers"] = ["FAILME", "KILLME"]
        if inv.get("subcommand") == "clean":
            req["subcommand"] = "clean"
            req["unused"] = bool(inv.get("unused"))
        return req


def pre_flags(pre):
    # global flags go before the subcommand; run_laze puts `more` after `build`, clap accepts global flags there too
    return list(pre)


def model_spawn_lines(ans, root):
    """render the model's spawn list the way the stand-ins log it"""
    out = []
    for s in ans["ok"]["spawns"]:
        if "ninja" in s:
            out.append("N:" + " ".join(s["ninja"]))
        else:
            env = dict((k, v) for k, v in s["env"])
            g = lambda k: env.get(k, "<unset>")
            argv = ["-c", s["sh"], "--"] + s["args"]
            out.append(f"S:{os.path.normpath(s['cwd'])}|X={g('X')}|Y={g('Y')}|CFLAGS={g('CFLAGS')}|" + " ".join(argv))
    return out


def norm_spawn(line):
    if line.startswith("S:"):
        cwd, rest = line[2:].split("|", 1)
        return "S:" + os.path.normpath(cwd) + "|" + rest
    return line
