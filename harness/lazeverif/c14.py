"""C14 — var_options render list variables without stray separators."""
import json, random
from . import common

ELEMS = ["a", "b", "", "", "x y", "-I", "é", "1", ",", " "]
JOINERS = [None, ",", " ", "", ", ", "--", "é"]
AFFIX = [None, None, "-D", "<", ">", "", "\"", "é"]
VARS = ["A", "B", "CFLAGS", "L"]


def gen_case(seed, i):
    rng = random.Random(seed * 1000003 + i)
    env = []
    for k in rng.sample(VARS, rng.randint(1, 3)):
        if rng.random() < 0.2:
            env.append([k, rng.choice(ELEMS)])
        else:
            env.append([k, [rng.choice(ELEMS) for _ in range(rng.choice([0, 0, 1, 2, 3, 4, 5]))]])
    opts = {}
    for k in rng.sample(VARS, rng.randint(0, 3)):
        o = {}
        for f, pool in (("joiner", JOINERS), ("prefix", AFFIX), ("suffix", AFFIX), ("start", AFFIX), ("end", AFFIX)):
            v = rng.choice(pool)
            if v is not None:
                o[f] = v
        if rng.random() < 0.25:
            o["from"] = rng.choice(VARS)
        opts[k] = o
    return {"op": "flatten_opts", "env": env, "opts": (opts if (opts or rng.random() < 0.8) else None), "id": i}


def spec_value(v, o):
    """the statement of C14, computed directly"""
    g = lambda f: o.get(f) or ""
    if isinstance(v, str):
        return g("start") + g("prefix") + v + g("suffix") + g("end")
    j = o["joiner"] if o.get("joiner") is not None else " "
    return g("start") + j.join(g("prefix") + x + g("suffix") for x in v if x != "") + g("end")


def spec(c):
    env = dict((k, v) for k, v in c["env"])
    opts = c["opts"]
    if opts is None:
        return {"ok": sorted([k, v if isinstance(v, str) else " ".join(v)] for k, v in env.items())}
    res = {}
    for k, v in env.items():
        res[k] = spec_value(v, opts[k]) if k in opts else (v if isinstance(v, str) else " ".join(v))
    for k, o in opts.items():
        if "from" in o:
            if o["from"] not in env or k in res:
                return {"err": "flatten"}
    for k, o in opts.items():
        if "from" in o:
            res[k] = spec_value(env[o["from"]], o)
    return {"ok": sorted([k, v] for k, v in res.items())}


def canon(a):
    if a is None:
        return {"crash": True}
    if "ok" in a:
        return {"ok": sorted(a["ok"])}
    if "err" in a:
        return {"err": a["err"]}
    if "panic" in a or "crash" in a:
        return {"panic": True}
    return a


def nontrivial(c):
    if not c["opts"]:
        return False
    n_empty = any(isinstance(v, list) and (len(v) == 0 or "" in v) and k in c["opts"] for k, v in c["env"])
    return n_empty and any(len(o) >= 2 for o in c["opts"].values())


def signature(c, ci):
    if "panic" in ci:
        empty = any(isinstance(v, list) and len(v) == 0 and c["opts"] and k in c["opts"] for k, v in c["env"])
        return "flatten_opts:panic:" + ("empty-list" if empty else "other")
    return "flatten_opts:stray-separator"


def worker(cases):
    return list(zip(cases, common.oracle(cases), common.model(cases)))


def judge(chk, c, impl, mod):
    ci, cm, sp = canon(impl), canon(mod), spec(c)
    chk.count("result:" + list(ci.keys())[0])
    if ci != sp:
        chk.fail_oracle(signature(c, ci), f"flatten {c['env']} with {c['opts']} -> {ci}, statement says {sp}",
                        {"case": c, "impl": impl, "expected": sp})
    chk.disagreements_checked += 1
    if ci != cm:
        chk.fail_disagree(f"{c['env']} {c['opts']}: impl {ci} model {cm}", {"case": c, "impl": impl, "model": mod})


# ---- project level: options set on a parent context apply to its descendants unless they define their own

def project_oracle(chk, p, r, m):
    from . import projrun, projcheck
    from .c03 import contexts_of, chain_of
    if projrun.impl_status(r) != "ok":
        return
    ctxs = contexts_of(p)
    for b in projcheck.built(r):
        chain = chain_of(ctxs, b["builder"])
        eff = None
        depth = None
        for i, cn in enumerate(chain):
            if ctxs.get(cn, {}).get("var_options") is not None:
                eff, depth = ctxs[cn]["var_options"], i
                break
        if eff is None:
            continue
        chk.count(f"var_options-from-depth:{min(depth, 3)}")
        G = dict((k, v) for k, v in b["global_env"])
        flat = dict((k, v) for k, v in b["global_flat"])
        for var, o in eff.items():
            if "from" in o:
                continue
            if var in G:
                want = spec_value(G[var], o)
                if flat.get(var) != want:
                    sig = "inherit:var-options-not-applied" if depth > 0 else "flatten_opts:project"
                    chk.fail_oracle(sig, f"{b['builder']}/{b['app']}: {var} = {G[var]!r} with options {o} of context {chain[depth]} (depth {depth}) is rendered {flat.get(var)!r}, statement says {want!r}",
                                    {"project": p, "build": [b["builder"], b["app"]]})
                    return
                if depth > 0 and isinstance(G[var], list):
                    chk.nontrivial.add("inherit:" + __import__("hashlib").sha256(json.dumps(p, sort_keys=True).encode()).hexdigest()[:12])


def run(chk):
    from . import projgen, projcheck
    prof = projgen.profile(n_ctx=(2, 5), p_ctx_shuffle=0.5, p_varopts=0.4, p_env=0.5, p_root_noenv=0.35, p_tasks=0.05, p_custom_build=0.02, p_download=0.02, p_cycle=0.0)
    projcheck.campaign(chk, prof, 800 if chk.tier == "quick" else 8000, ("status", "decision", "global_env", "module_env", "ninja"),
                       project_oracle, lambda c, p, r, m: False)
    n = 30000 if chk.tier == "quick" else 600000
    chk.rule = ("random envs (1-3 variables, single values and lists of 0-5 elements with empty elements at any position) x "
                "var_options (joiner/prefix/suffix/start/end/from, each present or absent); non-trivial = an optioned list is empty "
                "or has an empty element and some option sets >=2 fields; distinct by canonical JSON")
    cases = [gen_case(chk.seed, i) for i in range(n)]
    for c, impl, mod in common.parallel_map(worker, cases):
        chk.note_case({k: v for k, v in c.items() if k != "id"}, nontrivial(c))
        judge(chk, c, impl, mod)
    chk.assumptions = ["the closed-form rendering in c14.spec() is the statement of C14 (written independently of the model)"]
    return chk.finish()


def replay(chk, path):
    r = json.load(open(path))
    if "project" in r["case"]:
        from . import projcheck
        return projcheck.replay_project(chk, path, ("status", "decision", "global_env", "module_env", "ninja"), project_oracle)
    c = r["case"]["case"]
    impl, mod = common.oracle([c])[0], common.model([c])[0]
    print("impl :", canon(impl)); print("model:", canon(mod)); print("spec :", spec(c))
    chk.note_case(c, True)
    judge(chk, c, impl, mod)
    return chk.finish()
