"""Structured project generator: laze projects as YAML-level IR (python dicts, insertion-ordered),
plus a command line. One PRNG drives every choice."""
import random

DEFAULT_PROFILE = {
    "n_ctx": (1, 4), "n_builders": (1, 3), "n_mods": (2, 8), "n_apps": (1, 3),
    "p_shadow": 0.25, "p_dep": 0.55, "p_soft": 0.3, "p_ifthen": 0.2, "p_provides": 0.3, "p_unique": 0.15,
    "p_conflicts": 0.15, "p_ctx_select": 0.2, "p_ctx_disable": 0.15, "p_env": 0.4, "p_rules_override": 0.3,
    "p_nonshare": 0.2, "p_always": 0.15, "p_optsrc": 0.25, "p_subdir": 0.35, "p_defaults": 0.25,
    "p_ctxlist": 0.15, "p_multidoc": 0.15, "p_varopts": 0.2, "p_tasks": 0.3, "p_custom_build": 0.12,
    "p_download": 0.1, "p_build_dep": 0.15, "p_global_build_dep": 0.07, "p_blockallow": 0.2,
    "p_cli_select": 0.3, "p_cli_disable": 0.25, "p_cli_define": 0.3, "p_cli_builders": 0.3, "p_cli_apps": 0.3,
    "p_partition": 0.0, "p_local": 0.0, "p_escape": 0.08, "p_expr": 0.1, "p_postlink": 0.15, "p_srcdir": 0.1,
    "p_removes": 0.1, "p_notify_all": 0.05, "p_nobindir": 0.0, "p_include": 0.1, "p_bad": 0.0,
    "p_ctx_shuffle": 0.2, "p_app_dup": 0.12, "p_rule_field_variant": 0.12, "p_defaults_lists": 0.12, "p_global_dep_order": 0.05,
    "p_late_ifthen_leaf": 0.06, "p_dup_listing": 0.08,
    "p_rule_rename_chain": 0.07, "p_ifthen_feature_cond": 0.07, "p_empty_blockallow": 0.07, "p_rule_export_escape": 0.07,
    "p_optsrc_same_guard": 0.07, "p_subdirs_later_doc": 0.06, "p_shadowed_provider": 0.07, "p_two_patched_downloads": 0.05, "p_custom_build_no_out": 0.04, "p_cli_comma_define": 0.05, "p_self_named_unique": 0.05, "p_defaults_uses_removed": 0.05, "p_app_custom_build": 0.04, "p_same_dldir_downloads": 0.04,
    "p_desc_with_builder": 0.05, "p_srcdir_in_root_download": 0.04, "p_provided_name_is_module": 0.05, "p_download_with_srcdir": 0.04, "p_task_killed": 0.0, "p_no_link_rule_builder": 0.04, "p_cli_define_builtin": 0.05, "p_varopts_from_chain": 0.04,
    "p_defaults_other_kind_below": 0.05, "p_varopts_on_builtin": 0.05, "p_empty_patch_list": 0.04, "p_rule_text_newline": 0.01,
    "p_odd_app_names": 0.04, "p_same_source_two_spellings": 0.04, "p_uses_removal_marker": 0.05, "p_suffix_ext_rules": 0.05, "p_srcdir_dot": 0.05, "p_module_sets_builtin_var": 0.05,
    "p_context_prefixed_module": 0.05, "p_alias_spellings": 0.05, "p_root_context_disables": 0.05, "p_escaped_early_var": 0.05,
    "p_dup_context_list": 0.03, "p_empty_task_map": 0.04, "p_download_not_build_dep": 0.04, "p_global_deps_chain": 0.04,
    "p_cycle": 0.02, "p_task_fail": 0.0, "p_root_noenv": 0.06, "p_out_per_builder": 0.3, "p_same_override": 0.15, "p_hard_missing": 0.03, "p_app_elsewhere": 0.25,
}

VARS = ["CFLAGS", "DEFS", "OPT", "X", "LIBS"]
# a variable only refers to variables later in VARS (no accidental cycles); p_cycle adds deliberate ones
SINGLES = ["-O1", "lit", "${relpath}/inc", "a b", "é", "-I${srcdir}", "${root}/r"]
ELEMS = ["-Da", "-Db", "-I${srcdir}", "", "x", "${relpath}"]
FEATURES = ["f0", "f1", "f2"]


def profile(**kw):
    p = dict(DEFAULT_PROFILE)
    p.update(kw)
    return p


class Gen:
    def __init__(self, rng, prof):
        self.rng = rng
        self.p = prof

    def chance(self, k):
        return self.rng.random() < self.p[k]

    def env(self, density=None):
        rng = self.rng
        env = {}
        for vi, v in enumerate(VARS):
            if rng.random() < (density if density is not None else self.p["p_env"]):
                r = rng.random()
                later = VARS[vi + 1:]
                ref = ("${" + rng.choice(later) + "}") if later else "z"
                if self.chance("p_cycle"):
                    ref = "${" + rng.choice(VARS[:vi + 1]) + "}"
                if r < 0.45:
                    s = rng.choice(SINGLES + ["v" + ref, ref + "x"])
                    if self.chance("p_escape"):
                        s = "lit \\${OPT} end"
                    if self.chance("p_expr"):
                        s = rng.choice(["$(1+2)", "n$(2*3)", "$$(x)", "$(max(1,2))"])
                    env[v] = s
                else:
                    env[v] = [rng.choice(ELEMS + [ref, "-l" + ref]) for _ in range(rng.randint(0, 3))]
        return env

    def deps(self, names, kmax=3):
        rng = self.rng
        out = []
        for _ in range(rng.randint(0, kmax)):
            if not self.chance("p_dep"):
                continue
            n = rng.choice(names)
            if self.chance("p_soft") or (n == "nosuch" and not self.chance("p_hard_missing")):
                n = "?" + n
            if self.chance("p_ifthen"):
                cond = rng.choice(names)
                m = {cond: [n]}
                if rng.random() < 0.4:
                    m[cond].append(rng.choice(names))
                if rng.random() < 0.4:
                    c2 = rng.choice(names)
                    if c2 != cond:
                        m[c2] = [rng.choice(names)]
                out.append(m)
            else:
                out.append(n)
        return out

    def task(self, names):
        rng = self.rng
        t = {"cmd": [rng.choice(["echo ${app} ${builder}", "run ${out}", "flash ${X} $(1+1)", "t $$HOME ${CFLAGS}"])]}
        if self.chance("p_task_fail"):
            t["cmd"][0] += " FAILME"
        if rng.random() < 0.3:
            t["cmd"].append("second ${relpath}" + (" FAILME" if self.chance("p_task_fail") else ""))
        if rng.random() < 0.35:
            t["required_vars"] = [rng.choice(VARS + ["NOPE"])]
        if rng.random() < 0.3:
            t["required_modules"] = [rng.choice(names)]
        if rng.random() < 0.2:
            t["build"] = False
        if rng.random() < 0.2:
            t["export"] = [rng.choice(["X", {"Y": "y${OPT}"}, "CFLAGS"])]
        if rng.random() < 0.15:
            t["workdir"] = rng.choice(["${relpath}", "wd"])
        return t

    def project(self):
        rng, P = self.rng, self.p
        nctx = rng.randint(*P["n_ctx"])
        nb = rng.randint(*P["n_builders"])
        ctx_names = ["default"] + [f"c{i}" for i in range(1, nctx)]
        contexts, builders = [], []
        base_rules = [
            {"name": "CC", "in": "c", "out": "o", "cmd": "cc ${CFLAGS} ${DEFS} [${notify}] -c ${in} -o ${out}", "gcc_deps": "${out}.d"},
            {"name": "AS", "in": "S", "out": "o", "cmd": "as ${OPT} ${in} -o ${out}", "description": "AS ${out}"},
            {"name": "LINK", "in": "o", "cmd": "LINK ${builder} ${app} ${CFLAGS} ${X} ${LIBS} :: ${modules} :: ${contexts} :: ${relroot} ${appdir} -- ${in} -o ${out}"},
            {"name": "GIT_DOWNLOAD", "cmd": "git-dl ${commit} ${url} ${out}"},
            {"name": "GIT_PATCH", "cmd": "git-patch ${in} ${out}"},
        ]
        if self.chance("p_postlink"):
            base_rules.append({"name": "POST_LINK", "in": "elf", "out": "bin", "cmd": "objcopy ${in} ${out}"})
        denv = self.env(0.5)
        denv["SV"] = "s1"
        if not self.chance("p_nobindir"):
            denv["bindir"] = "${build-dir}/out/${builder}/${app}"
        default = {"name": "default", "env": denv, "rules": base_rules}
        if self.chance("p_root_noenv"):
            del default["env"]          # a context chain whose upper part has no env at all
        contexts.append(default)
        all_ctx = [default]
        for i in range(1, nctx):
            c = {"name": f"c{i}", "parent": rng.choice(ctx_names[:i])}
            if c["parent"] == "default" and rng.random() < 0.5:
                del c["parent"]
            contexts.append(c)
            all_ctx.append(c)
        for i in range(nb):
            b = {"name": f"b{i}", "parent": rng.choice(ctx_names + [f"b{j}" for j in range(i)])}
            if b["parent"] == "default" and rng.random() < 0.5:
                del b["parent"]
            builders.append(b)
            all_ctx.append(b)
        cnames = [c["name"] for c in all_ctx]
        nm = rng.randint(*P["n_mods"])
        mod_names = [f"m{i}" for i in range(nm)]
        dep_names = mod_names + FEATURES[:2] + ["nosuch"]
        # contexts: env, rules, selects, disables, var_options, tasks
        for c in all_ctx[1:]:
            e = self.env()
            if e:
                c["env"] = e
            if self.chance("p_rules_override"):
                tag = "ovr" if self.chance("p_same_override") else c["name"]
                r = {"name": "CC", "in": "c", "out": "o", "cmd": f"cc-{tag} ${{CFLAGS}} ${{DEFS}} -c ${{in}} -o ${{out}}"}
                if self.chance("p_nonshare"):
                    r["shareable"] = False
                if self.chance("p_always"):
                    r["always"] = True
                if rng.random() < 0.2:
                    r["export"] = ["X", {"Y": "y${OPT}"}]
                c["rules"] = [r]
            if self.chance("p_ctx_select"):
                c["selects"] = [rng.choice(mod_names + ["?" + rng.choice(mod_names)])]
            if self.chance("p_ctx_disable"):
                c["disables"] = [rng.choice(mod_names + FEATURES[:2])]
            if rng.random() < 0.08:
                c["provides"] = [rng.choice(FEATURES)]
            if rng.random() < 0.05:
                c["provides_unique"] = [rng.choice(FEATURES)]
        for c in all_ctx:
            if self.chance("p_varopts"):
                vo = {}
                for v in rng.sample(VARS, rng.randint(1, 2)):
                    o = {}
                    if rng.random() < 0.6:
                        o["joiner"] = rng.choice([",", " ", ":"])
                    if rng.random() < 0.5:
                        o["prefix"] = rng.choice(["-D", "<"])
                    if rng.random() < 0.3:
                        o["suffix"] = rng.choice([">", "!"])
                    if rng.random() < 0.3:
                        o["start"] = "["
                    if rng.random() < 0.3:
                        o["end"] = "]"
                    vo[v] = o
                if rng.random() < 0.15:
                    vo["FROMV"] = {"from": rng.choice(VARS), "joiner": "+"}
                c["var_options"] = vo
            if self.chance("p_tasks"):
                c["tasks"] = {rng.choice(["run", "flash", "info"]): self.task(mod_names)}
        # modules
        modules = []
        used = set()
        for n in mod_names:
            copies = 1 + (1 if self.chance("p_shadow") else 0) + (1 if rng.random() < 0.05 else 0)
            ctxs = rng.sample(cnames, min(copies, len(cnames)))
            if self.chance("p_ctxlist") and len(ctxs) > 1:
                groups = [ctxs]          # one module written with a list of contexts
            else:
                groups = [[c] for c in ctxs]
            for g in groups:
                m = self.module(n, g, dep_names, mod_names)
                modules.append(m)
        apps = []
        na = rng.randint(*P["n_apps"])
        for i in range(na):
            a = self.module(f"a{i}", [rng.choice(cnames) if self.chance("p_app_elsewhere") else "default"], dep_names, mod_names, app=True)
            apps.append(a)
        # distribute over files
        files = {"laze-project.yml": [{"contexts": contexts, "builders": builders}]}
        root_doc = files["laze-project.yml"][0]
        subdirs = []
        if self.chance("p_subdir"):
            subdirs = rng.sample(["sub1", "sub2", "sub1/deep"], rng.randint(1, 2))
        placement = {}
        for m in modules + apps:
            where = rng.choice([None] * 2 + subdirs) if subdirs else None
            placement.setdefault(where, []).append(m)
        def put(doc, items):
            ms = [m for m in items if not m.get("_app")]
            ap = [m for m in items if m.get("_app")]
            if ms:
                doc["modules"] = ms
            if ap:
                doc["apps"] = ap
        put(root_doc, placement.get(None, []))
        if self.chance("p_multidoc") and root_doc.get("modules") and len(root_doc["modules"]) > 1:
            k = len(root_doc["modules"]) // 2
            files["laze-project.yml"].append({"modules": root_doc["modules"][k:]})
            root_doc["modules"] = root_doc["modules"][:k]
        top_subdirs = []
        for sd in subdirs:
            doc = {}
            put(doc, placement.get(sd, []))
            if sd == "sub1/deep":
                # included from sub1 (create sub1 if needed)
                files.setdefault("sub1/laze.yml", [{}])
                files["sub1/laze.yml"][0].setdefault("subdirs", []).append("deep")
                if "sub1" not in top_subdirs:
                    top_subdirs.append("sub1")
            else:
                if sd not in top_subdirs:
                    top_subdirs.append(sd)
            if sd + "/laze.yml" in files:
                files[sd + "/laze.yml"][0].update(doc)
            else:
                files[sd + "/laze.yml"] = [doc]
        if top_subdirs:
            root_doc["subdirs"] = top_subdirs
        if self.chance("p_include"):
            files["extra.yml"] = [{"modules": [self.module("mx", ["default"], dep_names, mod_names)]}]
            root_doc["includes"] = ["extra.yml"]
        # defaults
        for path, docs in files.items():
            for doc in docs:
                if self.chance("p_defaults") and (doc.get("modules") or doc.get("apps") or doc.get("subdirs")):
                    d = {}
                    if rng.random() < 0.7:
                        dm = {}
                        if rng.random() < 0.5:
                            dm["depends"] = self.deps(dep_names, 2)
                        if rng.random() < 0.4:
                            dm["env"] = {"local": self.env(0.3)}
                        if rng.random() < 0.3:
                            dm["sources"] = ["common.c"]
                        if rng.random() < 0.2:
                            dm["conflicts"] = [rng.choice(mod_names)]
                        if rng.random() < 0.2:
                            dm["uses"] = [rng.choice(mod_names)]
                        d["module"] = dm
                    if rng.random() < 0.5:
                        da = {}
                        if rng.random() < 0.6:
                            da["selects"] = self.deps(dep_names, 2)
                        if rng.random() < 0.4:
                            da["env"] = {"global": self.env(0.3)}
                        if rng.random() < 0.2:
                            da["blocklist"] = [rng.choice(cnames)]
                        d["app"] = da
                    if d:
                        doc["defaults"] = d
        for m in modules + apps:
            m.pop("_app", None)
        for m in files.get("extra.yml", [{}])[0].get("modules", []):
            m.pop("_app", None)
        self.dirs = sorted({(path.rsplit("/", 1)[0] if "/" in path else ".") for path in files})
        args = self.args(cnames, [b["name"] for b in builders], [a["name"] for a in apps], mod_names)
        return {"files": files, "args": args}

    def module(self, name, ctxs, dep_names, mod_names, app=False):
        rng = self.rng
        m = {"name": name}
        if ctxs != ["default"] or rng.random() < 0.3:
            m["context"] = ctxs[0] if len(ctxs) == 1 else ctxs
        others = [d for d in dep_names if d != name]
        r = rng.random()
        sel = self.deps(others)
        if sel:
            m["selects" if r < 0.4 else "depends"] = sel
        if rng.random() < 0.35:
            m["uses"] = [("?" if rng.random() < 0.3 else "") + rng.choice(others) for _ in range(rng.randint(1, 2))]
        if rng.random() < 0.25 and "selects" in m:
            m["depends"] = self.deps(others, 2)
            if not m["depends"]:
                del m["depends"]
        if self.chance("p_removes") and m.get("depends"):
            m["depends"].append("-" + rng.choice(others))
        if not app:
            if self.chance("p_provides"):
                m["provides"] = [rng.choice(FEATURES)]
            if self.chance("p_unique"):
                m["provides_unique"] = [rng.choice(FEATURES)]
        if self.chance("p_conflicts"):
            m["conflicts"] = [rng.choice(others)]
        nsrc = rng.randint(0, 2)
        srcs = [f"{name}_{i}.c" for i in range(nsrc)]
        if rng.random() < 0.15:
            srcs.append("asm/" + name + ".S")
        if rng.random() < 0.1:
            srcs.append("${SV}v.c")
        if self.chance("p_optsrc"):
            om = {rng.choice(mod_names): [f"{name}_opt.c"]}
            if rng.random() < 0.3:
                om[rng.choice(mod_names)] = [f"{name}_opt2.c"]
            srcs.append(om)
        if srcs:
            m["sources"] = srcs
        env = {}
        for kind in ["local", "export", "global"]:
            e = self.env(self.p["p_env"] * 0.6)
            if e:
                env[kind] = e
        if env:
            m["env"] = env
        if self.chance("p_tasks"):
            m["tasks"] = {rng.choice(["run", "flash", "mtask"]): self.task(mod_names)}
        if self.chance("p_blockallow"):
            if rng.random() < 0.6:
                m["blocklist"] = [rng.choice(["b0", "b1", "c1", "default", "c2"])]
            if rng.random() < 0.5:
                m["allowlist"] = [rng.choice(["b0", "b1", "c1", "default"]) for _ in range(rng.randint(1, 2))]
        if not app:
            if self.chance("p_custom_build"):
                per_builder = "${builder}/" if self.chance("p_out_per_builder") else ""
                m["build"] = {"cmd": ["gen ${in} > ${out}", "touch ${out}"][: rng.randint(1, 2)],
                              "out": [f"${{build-dir}}/gen/{per_builder}{name}.h"] + ([f"${{build-dir}}/gen/{name}2.h"] if rng.random() < 0.3 else [])}
                if rng.random() < 0.2:
                    m["build"]["gcc_deps"] = "${out}.d"
            elif self.chance("p_download"):
                m["download"] = {"git": {"url": f"https://example.invalid/{name}.git", "commit": "0123abcd"}}
                if rng.random() < 0.3:
                    m["download"]["patches"] = ["p1.patch"]
                if rng.random() < 0.2:
                    m["download"]["dldir"] = "dl_" + name
            if self.chance("p_build_dep") or m.get("build") and rng.random() < 0.7:
                m["is_build_dep"] = True
            if self.chance("p_global_build_dep") and (m.get("build") or m.get("download")):
                m["is_global_build_dep"] = True
            if self.chance("p_notify_all"):
                m["notify_all"] = True
        if self.chance("p_srcdir") and "download" not in m:
            m["srcdir"] = rng.choice(["other", "${relpath}/s", "x/y"])
        if app:
            m["_app"] = True
        return m

    def args(self, cnames, builders, apps, mod_names):
        rng = self.rng
        a = {}
        if self.chance("p_cli_builders"):
            a["builders"] = rng.sample(builders, rng.randint(1, len(builders)))
        if self.chance("p_cli_apps"):
            a["apps"] = rng.sample(apps, rng.randint(1, len(apps)))
        if self.chance("p_cli_select"):
            a["select"] = [("?" if rng.random() < 0.3 else "") + rng.choice(mod_names + FEATURES[:2]) for _ in range(rng.randint(1, 2))]
        if self.chance("p_cli_disable"):
            a["disable"] = [rng.choice(mod_names + FEATURES[:2]) for _ in range(rng.randint(1, 2))]
        if self.chance("p_cli_define"):
            a["define"] = [rng.choice(VARS) + rng.choice(["=", "+="]) + rng.choice(["cli", "-Dc", "${OPT}", "a=b", ""]) for _ in range(rng.randint(1, 3))]
        if self.chance("p_partition"):
            n = rng.randint(1, 4)
            a["partition"] = f"count:{rng.randint(1, n)}/{n}"
        if self.chance("p_local"):
            a["local"] = rng.choice(self.dirs)
        return a


def folded_defines(defs):
    """the --define list folded in order into one env, as the cache key sees it (`V=x` replaces, `V+=x` appends to a list / replaces a
    single value)"""
    env = {}
    for d in defs or []:
        i = d.find("=")
        if i < 0:
            env[d] = ("?", d)
        elif i > 0 and d[i - 1] == "+":
            k, v = d[:i - 1], d[i + 1:]
            env[k] = ("l", env[k][1] + (v,)) if k in env and env[k][0] == "l" else ("l", (v,))
        else:
            env[d[:i]] = ("s", d[i + 1:])
    return env


def sibling_args(a, rng):
    """a command line that differs from `a` in ONE component of the cache key in a way that must NOT let its cache serve `a`
    (a select made optional/hard or moved to --disable, the selects in another order, `=` <-> `+=` of a define, one define dropped,
    a narrower --builders / --apps list, another partition): run first in the same build directory, it must leave no trace"""
    b = {k: (list(v) if isinstance(v, list) else v) for k, v in a.items() if not k.startswith("_") and k != "info_export"}
    opts = []
    if b.get("select"):
        opts += ["sel-kind", "sel-to-disable"] + (["sel-order"] if len(b["select"]) > 1 and b["select"] != b["select"][::-1] else [])
    if b.get("disable"):
        opts += ["dis-to-select", "dis-drop"]
    if b.get("select"):
        opts += ["sel-drop"]
    if b.get("define"):
        opts += ["def-kind", "def-drop"]
    if b.get("builders") and len(b["builders"]) > 1:
        opts += ["fewer-builders"]
    if b.get("apps") and len(b["apps"]) > 1:
        opts += ["fewer-apps"]
    if b.get("partition"):
        opts += ["other-partition"]
    # always possible: the run itself, then a refused run (unknown builder), or a narrower run with the cache disabled (--info-export),
    # and only then the run under test: the refused / cache-less run must not leave the first run's cache behind
    opts += ["self-then-refused", "self-then-info-export"]
    how = rng.choice(opts)
    if how == "self-then-refused":
        return [dict(b), dict(b, builders=["nosuchbuilder"]), {"_how": how}]
    if how == "self-then-info-export":
        nb = dict(b, info_export=True)
        if nb.get("apps") and len(nb["apps"]) > 1:
            nb["apps"] = nb["apps"][:1]
        elif nb.get("builders") and len(nb["builders"]) > 1:
            nb["builders"] = nb["builders"][:1]
        else:
            nb["disable"] = list(nb.get("disable") or []) + ["m0"]
        return [dict(b), nb, {"_how": how}]
    if how == "sel-kind":
        i = rng.randrange(len(b["select"]))
        x = b["select"][i]
        b["select"][i] = x[1:] if x.startswith("?") else "?" + x
    elif how == "sel-to-disable":
        x = b["select"].pop(rng.randrange(len(b["select"])))
        b["disable"] = list(b.get("disable") or []) + [x.lstrip("?")]
        if not b["select"]:
            del b["select"]
    elif how == "sel-order":
        b["select"] = b["select"][::-1]
    elif how == "dis-to-select":
        x = b["disable"].pop(rng.randrange(len(b["disable"])))
        b["select"] = list(b.get("select") or []) + ["?" + x]
        if not b["disable"]:
            del b["disable"]
    elif how == "dis-drop":
        b["disable"].pop(rng.randrange(len(b["disable"])))
        if not b["disable"]:
            del b["disable"]
    elif how == "sel-drop":
        b["select"].pop(rng.randrange(len(b["select"])))
        if not b["select"]:
            del b["select"]
    elif how == "def-kind":
        i = rng.randrange(len(b["define"]))
        d = b["define"][i]
        if "+=" in d and "=" not in d.split("+=")[0]:
            k, v = d.split("+=", 1)
            b["define"][i] = k + "=" + v
        elif "=" in d:
            k, v = d.split("=", 1)
            b["define"][i] = k + "+=" + v
    elif how == "def-drop":
        b["define"].pop(rng.randrange(len(b["define"])))
        if not b["define"]:
            del b["define"]
    elif how == "fewer-builders":
        b["builders"] = b["builders"][:-1]
    elif how == "fewer-apps":
        b["apps"] = b["apps"][:-1]
    elif how == "other-partition":
        b["partition"] = "count:1/3" if b["partition"] != "count:1/3" else "count:2/3"
    if b == {k: v for k, v in a.items() if not k.startswith("_") and k != "info_export"}:
        return None
    if how.startswith("def-") and folded_defines(b.get("define")) == folded_defines(a.get("define")):
        return None         # the same assignments after folding: the same request
    b["_how"] = how
    return b


def gen_project(seed, index, prof=None):
    rng = random.Random(seed * 1000003 + index)
    from . import shapes
    prof = prof or DEFAULT_PROFILE
    p = shapes.apply(Gen(rng, prof).project(), prof, seed, index)
    # a third of the runs also write the info export (own PRNG stream: the project of a (seed, index) stays what it was)
    if random.Random(seed * 104729 + index * 7 + 3).random() < prof.get("p_info_export", 0.34):
        p.setdefault("args", {})["info_export"] = True
    # one run in eight is preceded, in the same build directory, by a run with a sibling command line (own PRNG stream): what that
    # run leaves in the cache must not serve this one. Not with --info-export (cache off) and not in local mode.
    r2 = random.Random(seed * 15485863 + index * 11 + 5)
    a = p.get("args", {})
    if r2.random() < prof.get("p_sibling_before", 0.125) and not a.get("info_export") and a.get("local") is None:
        sib = sibling_args(a, r2)
        if sib is not None:
            a["_before"] = sib
    return p
