"""C07 — objects are shared exactly when their compile statements are identical."""
import re
from . import common, projgen, projcheck, projrun, ninjaparse
from .c03 import contexts_of, chain_of, nearest_rule, ext_of

PROF = projgen.profile(p_odd_app_names=0.12, n_builders=(2, 4), n_apps=(1, 3), n_mods=(2, 6), p_rules_override=0.5, p_same_override=0.6, p_always=0.3,
                       p_nonshare=0.3, p_env=0.5, p_custom_build=0.12, p_build_dep=0.3, p_global_build_dep=0.08, p_download=0.05,
                       p_tasks=0.03, p_app_elsewhere=0.1, p_cli_builders=0.1, p_cli_apps=0.1, p_defaults=0.35)
OBS = ("status", "decision", "loaded", "ninja")

NOT_COMPILE = ("LINK_", "POST_LINK_", "BUILD_", "GIT_DOWNLOAD_", "GIT_PATCH_")


def compile_statements(pn, target):
    """statements in the closure of `target` that compile one source: source -> list of statements"""
    prod = ninjaparse.producers(pn)
    out = {}
    seen, todo = set(), [target]
    while todo:
        t = todo.pop()
        if t in seen:
            continue
        seen.add(t)
        for b in prod.get(t, []):
            if b["rule"] != "phony" and not b["rule"].startswith(NOT_COMPILE) and len(b["inputs"]) == 1:
                out.setdefault(b["inputs"][0], [])
                if b not in out[b["inputs"][0]]:
                    out[b["inputs"][0]].append(b)
            todo += b["inputs"] + b["order_only"]
    return out


def oracle(chk, p, r, m):
    if projrun.impl_status(r) != "ok" or not r["ninja"]:
        return
    try:
        pn = ninjaparse.parse(r["ninja"])
    except ninjaparse.ParseError:
        return
    rules = {x["name"]: x for x in pn["rules"]}
    ctxs = contexts_of(p)
    blds = projcheck.built(r)
    per_build = {}
    prod = ninjaparse.producers(pn)
    for b in blds:
        if ninjaparse.ambiguous(pn, b["outfile"], prod):
            # several builds write one ${outfile} (C06 known finding "outfile-collision"): the closure of that target mixes builds
            chk.count("skipped:outfile-with-several-producers")
            continue
        per_build[(b["builder"], b["app"])] = compile_statements(pn, b["outfile"])
    blds = [b for b in blds if (b["builder"], b["app"]) in per_build]

    def effective(st):
        rv = rules.get(st["rule"], {"vars": {}})["vars"]
        return (rv.get("command"), rv.get("depfile"), tuple(st["order_only"]))

    keys = list(per_build)
    shared = unshared = 0
    for i, k1 in enumerate(keys):
        for k2 in keys[i + 1:]:
            for src in set(per_build[k1]) & set(per_build[k2]):
                for s1 in per_build[k1][src]:
                    for s2 in per_build[k2][src]:
                        same_path = s1["outs"] == s2["outs"]
                        same_eff = effective(s1) == effective(s2) and rules.get(s1["rule"], {}).get("text") == rules.get(s2["rule"], {}).get("text")
                        if same_path:
                            shared += 1
                        else:
                            unshared += 1
                        if same_path and s1["text"] != s2["text"]:
                            chk.fail_oracle("share:same-object-different-statement",
                                            f"{src}: builds {k1} and {k2} use object {s1['outs']} with different statements", {"project": p, "source": src})
                            return
                        if same_path and effective(s1) != effective(s2):
                            chk.fail_oracle("share:same-object-different-command", f"{src}: {k1} vs {k2}", {"project": p, "source": src})
                            return
                        if not same_path and same_eff:
                            # identical rule block (name, command, description, depfile) and order-only deps must share
                            priv = lambda st, k: st["outs"][0].startswith(f"build/objects/{k[0]}/{k[1]}/")
                            if priv(s1, k1) or priv(s2, k2):
                                continue          # non-shareable rules are private by definition
                            if s1["outs"][0].rsplit(".", 1)[-1] != s2["outs"][0].rsplit(".", 1)[-1]:
                                # the two rules name different object extensions (`out:`): the object file name the user asked for
                                # differs; `C07.same_object_iff` is stated for one `out` extension (DESIGN §9.3)
                                chk.count("skipped:different-out-extension")
                                continue
                            chk.fail_oracle("share:identical-not-shared", f"{src}: {k1} -> {s1['outs']}, {k2} -> {s2['outs']} although rule and order-only deps are identical",
                                            {"project": p, "source": src})
                            return
    chk.count("pairs-shared", shared)
    chk.count("pairs-unshared", unshared)
    # non-shareable rules: object path private to builder and app, and only then
    for b in blds:
        k = (b["builder"], b["app"])
        chain = chain_of(ctxs, b["builder"])
        srcmap = {}
        for x in b["modules"]:
            for s in x["sources"]:
                srcmap.setdefault(s.split("/")[-1], s)
        for src, sts in per_build[k].items():
            e = ext_of(src)
            nr = nearest_rule(ctxs, chain, ext=e)
            if nr is None:
                continue
            for st in sts:
                private = st["outs"][0].startswith(f"build/objects/{k[0]}/{k[1]}/")
                if nr.get("shareable", True) is False:
                    chk.count("nonshareable-objects")
                    if not private:
                        chk.fail_oracle("share:nonshareable-not-private", f"{k}: {src} compiled by non-shareable {nr['name']} into {st['outs']}", {"project": p})
                        return
                elif private and not re.search(r"\d{10,}", st["outs"][0]):
                    chk.fail_oracle("share:shareable-private", f"{k}: {src} -> {st['outs']} although the rule is shareable", {"project": p})
                    return
    return shared, unshared


def nontrivial(chk, p, r, m):
    if projrun.impl_status(r) != "ok" or not r["ninja"]:
        return False
    try:
        pn = ninjaparse.parse(r["ninja"])
    except ninjaparse.ParseError:
        return False
    blds = projcheck.built(r)
    per = [compile_statements(pn, b["outfile"]) for b in blds]
    sh = un = False
    for i in range(len(per)):
        for j in range(i + 1, len(per)):
            for src in set(per[i]) & set(per[j]):
                a, b = per[i][src][0], per[j][src][0]
                if a["outs"] == b["outs"]:
                    sh = True
                else:
                    un = True
    return sh and un


def run(chk):
    n = 900 if chk.tier == "quick" else 8000
    chk.rule = ("random builder matrices (envs differing in variables a rule uses / does not use, overridden rules with identical commands, "
                "`always`, non-shareable rules, build deps) through the real CLI; whole ninja file compared with the model's; oracle: for every "
                "pair of configured builds and every source both compile: equal object path <=> identical rule block and order-only deps, "
                "equal path => one identical statement; non-shareable => objects/<builder>/<app>/ prefix; non-trivial = some pair of builds "
                "shares an object and some pair does not; distinct by project hash")
    from . import grafts
    k = 12 if chk.tier == "quick" else 300
    extra = [g(projgen.gen_project(chk.seed + 760, i, PROF), i) for i in range(k) for g in (grafts.marker_build_dep, grafts.per_builder_generated)]
    projcheck.campaign(chk, PROF, n, OBS, oracle, nontrivial, extra_projects=extra)
    chk.assumptions = ["HashOK: no 64-bit hash collision within a run"]
    return chk.finish()


def replay(chk, path):
    return projcheck.replay_project(chk, path, OBS, oracle)
