"""Directed shapes grafted onto generated projects: structures that random generation reaches rarely and that several
properties depend on. Each takes a generated project and an index and returns a new project."""
import copy, random
from . import projcheck


def _root(p):
    return p["files"]["laze-project.yml"][0]


def _apps(p):
    return [m for kind, m, path in projcheck.yaml_modules(p) if kind == "apps"]


def marker_build_dep(p, i):
    """one source module that imports an `is_build_dep` module exporting NO files in one build (so its list of imported
    build-dep files is present but empty) and does not import it in another build"""
    rng = random.Random(i)
    p = copy.deepcopy(p)
    mods = _root(p).setdefault("modules", [])
    mods.append({"name": "gflag"})
    mods.append({"name": "gmarker", "is_build_dep": True})
    mods.append({"name": "gshared", "sources": ["gshared.c"], "depends": [{"gflag": ["gmarker"]}]})
    apps = _apps(p)
    for k, a in enumerate(apps):
        a["depends"] = list(a.get("depends") or []) + ["gshared"] + (["gflag", "gmarker"] if k == 0 else [])
    if len(apps) < 2:
        _root(p).setdefault("apps", []).append({"name": "gapp2", "sources": ["gapp2.c"], "depends": ["gshared"]})
    return p


def per_builder_generated(p, i):
    """a source module that imports the output of a custom build whose path depends on ${builder} (or ${app}): the same source
    is compiled in several builds with different imported build-dep files"""
    rng = random.Random(i)
    p = copy.deepcopy(p)
    mods = _root(p).setdefault("modules", [])
    var = rng.choice(["${builder}", "${app}", "${builder}/${app}"])
    mods.append({"name": "ggen", "is_build_dep": True, "sources": [],
                 "build": {"cmd": ["gen > ${out}"], "out": ["${build-dir}/ggen/" + var + "/ggen.h"]}})
    mods.append({"name": "guser", "sources": ["guser.c"], "depends": ["ggen"]})
    apps = _apps(p)
    for a in apps:
        a["depends"] = list(a.get("depends") or []) + ["guser"]
    if len(apps) < 2:
        _root(p).setdefault("apps", []).append({"name": "gapp2", "sources": ["gapp2.c"], "depends": ["guser"]})
    return p


def conflict_backout(p, i):
    """a module with `conflicts` that passes admission and is then backed out because a hard dependency of it cannot be resolved
    (tolerated: it is reached through an optional dependency or as one of several providers), while a module it conflicts with is
    requested later"""
    rng = random.Random(i)
    p = copy.deepcopy(p)
    mods = _root(p).setdefault("modules", [])
    mods.append({"name": "kvictim", "sources": ["kvictim.c"]})
    shape = rng.choice(["optional", "provider"])
    if shape == "optional":
        mods.append({"name": "kbad", "conflicts": ["kvictim"], "depends": ["knonexistent"]})
        first = "?kbad"
    else:
        mods.append({"name": "kbad", "provides": ["kfeature"], "conflicts": ["kvictim"], "depends": ["knonexistent"]})
        mods.append({"name": "kgood", "provides": ["kfeature"]})
        first = "kfeature"
    for a in _apps(p):
        a["depends"] = [first] + list(a.get("depends") or []) + [rng.choice(["kvictim", "?kvictim"])]
    return p


ALL = {"marker_build_dep": marker_build_dep, "per_builder_generated": per_builder_generated, "conflict_backout": conflict_backout}
