"""C05 — local and exported variables do not leak beyond their scope."""
import copy, json, random
from . import common, projgen, projcheck, projrun, ninjaparse
from .c04 import closure
from .c07 import NOT_COMPILE

PROF = projgen.profile(n_mods=(3, 8), p_dep=0.7, p_provides=0.35, p_env=0.5, p_custom_build=0.06, p_build_dep=0.1, p_download=0.03,
                       p_tasks=0.03, p_cli_define=0.2, p_defaults=0.2, p_ctxlist=0.0, p_shadow=0.15, p_varopts=0.1, p_cycle=0.0)
OBS = ("status", "decision", "modules", "loaded", "module_env", "ninja")


def compile_by_source(pn):
    rules = {x["name"]: x["text"] for x in pn["rules"]}
    out = {}
    for b in pn["builds"]:
        if b["rule"] != "phony" and not b["rule"].startswith(NOT_COMPILE) and len(b["inputs"]) == 1:
            out.setdefault(b["inputs"][0], set()).add((b["text"], rules.get(b["rule"], "")))
    return out


def find_yaml(p, name, ctx):
    for kind, m, path in projcheck.yaml_modules(p):
        c = m.get("context", "default")
        if m.get("name") == name and (ctx in c if isinstance(c, list) else c == ctx):
            return m
    return None


def edit_job(job):
    p, seed = job[0], job[1]
    forced = job[2] if len(job) > 2 else None
    rng = random.Random(seed)
    r0 = projrun.run_impl(p)
    if projrun.impl_status(r0) != "ok" or not projcheck.built(r0):
        return (p, None)
    blds = projcheck.built(r0)
    cands = sorted({(x["name"], x["context"]) for b in blds for x in b["modules"]
                    if x["srcdir"] is not None and x["sources"] and not x["has_build"] and not x["is_build_dep"] and not x["is_global_build_dep"]})
    if not cands:
        return (p, None)
    mname, mctx = rng.choice(cands)
    kind = rng.choice(["local", "export"])
    if forced is not None and isinstance(forced[0], str):
        hit = [c for c in cands if c[0] == forced[0]]
        if not hit:
            return (p, None)
        (mname, mctx), kind = hit[0], forced[1]
    elif forced is not None:
        if forced[0] >= len(cands):
            return (p, None)
        (mname, mctx), kind = cands[forced[0]], forced[1]
    q = copy.deepcopy(p)
    ym = find_yaml(q, mname, mctx)
    if ym is None or isinstance(ym.get("context"), list):
        return (p, None)
    var = rng.choice(["CFLAGS", "DEFS"])
    val = rng.choice(["-DEDITED", ["-DEDITED_LIST"]])
    ym.setdefault("env", {}).setdefault(kind, {})[var] = val
    r1 = projrun.run_impl(q)
    return (p, {"module": mname, "context": mctx, "kind": kind, "var": var, "val": val, "r0": {"dump": r0["dump"], "ninja": r0["ninja"]},
                "r1": {"dump": r1["dump"], "ninja": r1["ninja"], "status": projrun.impl_status(r1), "stderr": r1["stderr"][-200:]}, "edited": q})


def graft_conditional(p, i):
    """a conditional dependency whose condition module is not part of the build while its target is (selected by another path):
    the user does not import the target, so the target's exported variables must not reach it"""
    rng = random.Random(i)
    p = copy.deepcopy(p)
    root = p["files"]["laze-project.yml"][0]
    mods = root.setdefault("modules", [])
    mods.append({"name": "cabs", "sources": ["cabs.c"]})
    mods.append({"name": "ctgt", "sources": ["ctgt.c"], "env": {"export": {"CFLAGS": ["-DTGT"]}}})
    mods.append({"name": "cusr", "sources": ["cusr.c"], "depends": [{"cabs": [rng.choice(["ctgt", "?ctgt"])]}]})
    if rng.random() < 0.5:
        mods.append({"name": "cusr2", "sources": ["cusr2.c"], "depends": ["cusr"]})
    for kind, m, path in projcheck.yaml_modules(p):
        if kind == "apps":
            m["depends"] = list(m.get("depends") or []) + ["cusr2" if any(x["name"] == "cusr2" for x in mods) else "cusr", "ctgt"]
    return p


def worker(jobs):
    return [edit_job(j) for j in jobs]


def judge(chk, p, e):
    chk.evaluations += 1
    if e is None:
        chk.count("skipped")
        return
    chk.count("edit:" + e["kind"])
    if e["r1"]["status"] != "ok":
        chk.count("edited-project-rejected")
        return
    try:
        c0, c1 = compile_by_source(ninjaparse.parse(e["r0"]["ninja"])), compile_by_source(ninjaparse.parse(e["r1"]["ninja"]))
    except ninjaparse.ParseError:
        return
    M = e["module"]
    # which sources may change: those of M (local edit) or of modules whose import closure contains M (export edit), in some build
    allowed_src, other_src = set(), set()
    users, nonusers = 0, 0
    d1 = projrun.impl_builds(e["r1"])
    for b in projcheck.built(e["r0"]):
        names = [x["name"] for x in b["modules"]]
        mods = {x["name"]: x for x in b["modules"]}
        b1 = d1.get((b["builder"], b["app"]))
        if b1 is None or b1["decision"] != "built" or [x["name"] for x in b1["modules"]] != names:
            chk.fail_oracle("scope:selection-changed", f"editing an env of {M} changed the module selection of {b['builder']}/{b['app']}", {"project": p, "edit": {k: e[k] for k in ("module", "kind", "var", "val")}})
            return
        sel_here = M in mods and mods[M]["context"] == e["context"]
        for x in b["modules"]:
            if x["srcdir"] is None or x["has_build"]:
                continue
            srcs = [(x["srcdir"] + "/" + s if x["srcdir"] else s) for s in x["sources"]]
            affected = sel_here and (x["name"] == M or (e["kind"] == "export" and M in closure(mods, names, x["name"], set())))
            (allowed_src if affected else other_src).update(s for s in srcs if "${" not in s)
            if x["name"] != M and sel_here:
                users += affected
                nonusers += not affected
    strictly_other = other_src - allowed_src
    changed = [s for s in sorted(strictly_other) if s in c0 and c0.get(s) != c1.get(s)]
    if changed:
        chk.fail_oracle(f"scope:{e['kind']}-leak", f"editing {e['kind']} {e['var']} of {M} changed the compile statements of {changed[:3]}",
                        {"project": p, "edit": {k: e[k] for k in ("module", "context", "kind", "var", "val")}})
        return
    # the edit is visible where it should be (otherwise the comparison above is vacuous)
    visible = any(c0.get(s) != c1.get(s) for s in allowed_src)
    if visible:
        chk.count("edit-visible")
    if visible and (e["kind"] == "local" or (users and nonusers)):
        chk.nontrivial.add(projcheck.phash(p) + e["kind"])
        if len(chk.samples) < 2:
            chk.samples.append({"edit": {k: e[k] for k in ("module", "context", "kind", "var", "val")}, "args": p["args"],
                                "unchanged_sources": sorted(strictly_other)[:6]})


def run(chk):
    n = 300 if chk.tier == "quick" else 4000
    chk.rule = ("random projects (uses/depends/selects graphs, providers) x one edit of a random selected module's local or export env (CFLAGS/DEFS, "
                "single or list); (1) model correspondence on module envs + ninja file; (2) metamorphic on the implementation: compile statements "
                "(text incl. object path and rule name, and the rule block) of every source outside the module (local) / outside the modules whose "
                "import closure contains it (export) must be byte-identical, and the selection must not change; non-trivial = the edit is visible in "
                "the module's own statements (and for export edits there is at least one user and one non-user); distinct by project+kind")
    projcheck.campaign(chk, PROF, 450 if chk.tier == "quick" else 4000, OBS, None, lambda c, p, r, m: False, label="corr:")
    jobs = [(projgen.gen_project(chk.seed + 500, i, PROF), chk.seed * 131 + i) for i in range(n)]
    jobs += [(graft_conditional(projgen.gen_project(chk.seed + 550, i, PROF), i), i, ("ctgt", "export")) for i in range(max(10, n // 10))]
    for p, e in common.parallel_map(worker, jobs):
        judge(chk, p, e)
    chk.assumptions = ["modules that are build dependencies (custom build / download / is_build_dep) are not edited: their outputs legitimately reach dependents"]

    def search():
        """the model and the implementation disagree: try every single-variable edit on the disagreeing projects"""
        tried = 0
        for what, case in chk.disagree[:6]:
            p = case.get("project")
            if not p:
                continue
            jobs = [(p, 1, (i, kind)) for i in range(12) for kind in ("local", "export")]
            for pp, e in common.parallel_map(worker, jobs):
                tried += 1
                before = len(chk.oracle_fail)
                judge(chk, pp, e)
                if len(chk.oracle_fail) > before:
                    chk.search_note = f"found after {tried} directed edits on a disagreeing project"
                    return chk.oracle_fail[-1]
        chk.search_note = f"{tried} directed edits on the disagreeing projects, no leak found"
        return None
    return chk.finish(search)


def replay(chk, path):
    r0 = json.load(open(path))
    p = r0["case"]["project"]
    if "edit" in r0["case"]:
        for seed in range(40):
            pp, e = edit_job((p, seed))
            if e and e["module"] == r0["case"]["edit"]["module"] and e["kind"] == r0["case"]["edit"]["kind"]:
                judge(chk, pp, e)
                break
        chk.note_case({"project": p}, True)
        return chk.finish()
    return projcheck.replay_project(chk, path, OBS, None)
