"""C18 — laze builds what was asked for and reports ninja's verdict."""
import json, random
from . import common, projgen, projcheck, projrun, clirun

PROF = projgen.profile(n_builders=(2, 3), n_apps=(2, 3), p_tasks=0.35, p_task_fail=0.0, p_cli_builders=0.0, p_cli_apps=0.0, p_cli_select=0.15,
                       p_cli_disable=0.1, p_cli_define=0.15, p_custom_build=0.03, p_download=0.03, p_app_elsewhere=0.1,
                       p_hard_missing=0.0, p_cycle=0.0)


def gen_scenario(seed, i):
    rng = random.Random(seed * 7907 + i)
    p = projgen.gen_project(seed + 1800, i, PROF)
    base = dict(p["args"])
    builders = [b["name"] for b in p["files"]["laze-project.yml"][0]["builders"]]
    apps = sorted({m["name"] for kind, m, path in projcheck.yaml_modules(p) if kind == "apps"})

    def flags():
        f = {}
        if rng.random() < 0.3:
            f["jobs"] = rng.randint(1, 9)
        if rng.random() < 0.3:
            f["keep_going"] = rng.choice([0, 1, 3])
        if rng.random() < 0.3:
            f["verbose"] = rng.randint(1, 2)
        if rng.random() < 0.15:
            f["compile_commands"] = True
        if rng.random() < 0.12:
            f["info_export"] = ".info-export.json"       # also disables the cache for this run
        return f

    def narrow():
        a = dict(base)
        r = rng.random()
        if r < 0.4:
            a["apps"] = rng.sample(apps, rng.randint(1, len(apps)))
        elif r < 0.7:
            a["builders"] = rng.sample(builders, rng.randint(1, len(builders)))
        else:
            a["apps"] = rng.sample(apps, rng.randint(1, len(apps)))
            a["builders"] = rng.sample(builders, rng.randint(1, len(builders)))
        if rng.random() < 0.06:
            # `-b "b0, b1"`: a name with a blank is not the name of a builder / app (reported as unknown, nothing is built)
            k = rng.choice([x for x in ("builders", "apps") if a.get(x)])
            a[k] = list(a[k])
            i = rng.randrange(len(a[k]))
            a[k][i] = rng.choice([" " + a[k][i], a[k][i] + " "])
        return a
    defined = set()
    for kind, m, path in projcheck.yaml_modules(p):
        defined |= set((m.get("tasks") or {}).keys())
    for d in p["files"]["laze-project.yml"]:
        for c in (d.get("contexts") or []) + (d.get("builders") or []):
            defined |= set((c.get("tasks") or {}).keys())
    defined = sorted(defined)
    invs = []
    first = {"args": dict(base), "flags": flags(), "ninja_rc": rng.choice([0, 0, 0, 1])}
    if rng.random() < 0.4:
        first["flags"]["generate_only"] = True
    if rng.random() < 0.3:
        first["args"] = narrow()
    invs.append(first)
    for _ in range(rng.randint(1, 3)):
        inv = {"args": narrow() if rng.random() < 0.8 else dict(base), "flags": flags(), "ninja_rc": rng.choice([0, 0, 1, 2, 130, "kill"])}
        r = rng.random()
        if r < 0.1:
            inv["flags"]["generate_only"] = True
        elif r < 0.2:
            inv["no_ninja"] = True
        elif 0.3 <= r < 0.55 and defined:
            # a task run: the apps are built first (ninja without -k), whatever ninja says decides before any task is started
            inv["task"] = rng.choice(defined)
            inv["task_args"] = []
            if rng.random() < 0.65:
                inv["flags"]["multiple"] = True
            inv["flags"]["keep_going"] = rng.choice([0, 1, 2, 3])
            inv["ninja_rc"] = rng.choice([0, 1, 1, 2, "kill"])
            if rng.random() < 0.25:
                inv["flags"]["generate_only"] = True          # -G with a task: nothing is built, no task is started
        elif r < 0.3:
            inv = {"subcommand": "clean", "unused": rng.random() < 0.5, "flags": {"verbose": rng.choice([0, 1])}, "ninja_rc": rng.choice([0, 1, "kill"]), "args": {}}
        invs.append(inv)
    sc = {"project": p, "invocations": invs}
    if rng.random() < 0.12:
        # the same environment for every invocation of the scenario (a CI job, a shell profile): a variable laze does not read
        sc["env"] = {rng.choice(["LAZE_BUILD_DIR", "LAZE_BUILD_DIR", "LAZE_BUILDDIR", "LAZE_CLEAN"]): rng.choice(["ci-out", "build2", "1"])}
    return sc


def run_scenario(sc):
    s = clirun.Scenario(sc["project"])
    out = []
    try:
        gen_args = None          # arguments of the run that wrote the current build files
        outs = {}                # (builder, app) -> outfile, from the dump of generating runs
        for inv in sc["invocations"]:
            r = s.invoke(inv, extra_env=sc.get("env"))
            if inv.get("subcommand") != "clean":
                if not r["cache_hit"]:
                    gen_args = inv["args"]
                    outs = {(b["builder"], b["app"]): b["outfile"] for b in r["dump"] if b["decision"] == "built"}
            req = s.model_request(inv, cache_args=gen_args if r["cache_hit"] else None)
            out.append({"inv": inv, "rc": r["rc"], "spawns": r["spawns"], "cache_hit": r["cache_hit"], "req": req,
                        "outs": [[k[0], k[1], v] for k, v in outs.items()], "stderr": r["stderr"][-300:], "root": s.root})
    finally:
        s.close()
    return out


def worker(scs):
    res = [run_scenario(sc) for sc in scs]
    reqs = [step["req"] for steps in res for step in steps]
    ans = projrun.run_model_batch(reqs)
    k = 0
    for steps in res:
        for step in steps:
            step["model"] = ans[k]
            del step["req"]
            k += 1
    return list(zip(scs, res))


def selected(args, b, a):
    return (args.get("builders") is None or b in args["builders"]) and (args.get("apps") is None or a in args["apps"])


def judge(chk, sc, steps):
    nt = False
    # no invocation of these scenarios gives --build-dir: `laze build`, task runs and `laze clean` made from the same directory with the
    # same environment all work on ONE ninja file
    used = sorted({l.split()[1] for step in steps for l in step["spawns"] if l.startswith("N:-f ") and len(l.split()) > 1})
    if len(used) > 1:
        chk.fail_oracle("ninja:build-dir-differs-between-subcommands", f"the invocations of one scenario (env {sc.get('env')}) ran ninja on {used}", {"scenario": sc})
    for step in steps:
        inv, rc, sp, m = step["inv"], step["rc"], step["spawns"], step["model"]
        chk.evaluations += 1
        fl = inv.get("flags", {})
        ninja_lines = [l for l in sp if l.startswith("N:")]
        chk.count("hit" if step["cache_hit"] else "miss")
        # --compile-commands: one `ninja -f <file> -t compdb` right after generation, before anything else; it is a query, not a build
        compdb = [l for l in ninja_lines if l.endswith(" -t compdb")]
        if inv.get("subcommand") != "clean" and rc in (0, 1) and "error: unknown b" not in step["stderr"] and not inv.get("no_ninja"):
            if fl.get("compile_commands"):
                chk.count("compile-commands")
                if (sp and compdb != ["N:-f build/build-global.ninja -t compdb"]) or (compdb and sp[0] != compdb[0]):
                    chk.fail_oracle("ninja:compdb", f"--compile-commands: spawns {sp[:3]}, expected the compdb query on the generated file first", {"scenario": sc})
            elif compdb:
                chk.fail_oracle("ninja:compdb-unasked", f"compdb run without --compile-commands: {compdb}", {"scenario": sc})
        ninja_lines = [l for l in ninja_lines if not l.endswith(" -t compdb")]
        # ---- oracle on the implementation
        if inv.get("subcommand") == "clean":
            want = "N:-f build/build-global.ninja" + (" -v" if fl.get("verbose") else "") + " -t " + ("cleandead" if inv.get("unused") else "clean")
            if ninja_lines != [want]:
                chk.fail_oracle("ninja:clean-argv", f"clean ran {ninja_lines}, expected {[want]}", {"scenario": sc})
        elif inv.get("task"):
            chk.count("task-run")
            if inv.get("ninja_rc", 0) != 0 and ninja_lines and rc == 0:
                chk.fail_oracle("ninja:rc-swallowed:task-run" + (":killed-by-signal" if inv["ninja_rc"] == "kill" else ""),
                                f"building the apps for task {inv['task']}: ninja exits {inv['ninja_rc']} but laze exits 0", {"scenario": sc})
        elif rc in (0, 1) and "error: unknown b" not in step["stderr"]:
            generated_ok = rc == 0 or ninja_lines or inv.get("no_ninja")
            if fl.get("generate_only"):
                if ninja_lines:
                    chk.fail_oracle("ninja:invoked-with-G", f"-G but ninja was run: {ninja_lines}", {"scenario": sc})
            elif ninja_lines:
                argv = ninja_lines[0][2:].split(" ")
                if argv[:2] != ["-f", "build/build-global.ninja"]:
                    chk.fail_oracle("ninja:wrong-file", f"{argv}", {"scenario": sc})
                rest = argv[2:]
                exp = []
                if fl.get("verbose"):
                    exp.append("-v")
                if fl.get("jobs") is not None:
                    exp += ["-j", str(fl["jobs"])]
                exp += ["-k", str(fl.get("keep_going", 1))]
                if rest[:len(exp)] != exp:
                    chk.fail_oracle("ninja:flags", f"flags {fl} -> ninja argv {argv}", {"scenario": sc})
                targets = rest[len(exp):]
                outs = {(b, a): o for b, a, o in step["outs"]}
                want = sorted(o for (b, a), o in outs.items() if selected(inv["args"], b, a))
                outside = [o for (b, a), o in outs.items() if not selected(inv["args"], b, a)]
                if targets:
                    if sorted(targets) != want:
                        chk.fail_oracle("ninja:targets", f"targets {sorted(targets)} but the selected configured builds are {want}", {"scenario": sc})
                elif outside:
                    # no targets = build the whole file, which contains builds outside the selection
                    sig = "ninja:targets-outside-selection" + (":apps-only-from-wider-cache" if inv["args"].get("builders") is None else "")
                    chk.fail_oracle(sig, f"selection {inv['args']} but ninja is run without targets on a file that also contains {outside[:3]}", {"scenario": sc})
                if step["cache_hit"] and (inv["args"].get("builders") or inv["args"].get("apps")):
                    nt = True
            if inv.get("ninja_rc", 0) != 0 and ninja_lines and rc == 0:
                chk.fail_oracle("ninja:rc-swallowed" + (":killed-by-signal" if inv["ninja_rc"] == "kill" else ""),
                                f"ninja exits {inv['ninja_rc']} but laze exits 0", {"scenario": sc})
            outs_ = {(b, a): o for b, a, o in step["outs"]}
            nothing = (inv["args"].get("builders") is not None or inv["args"].get("apps") is not None) and \
                not [o for (b, a), o in outs_.items() if selected(inv["args"], b, a)]
            if inv.get("no_ninja") and not fl.get("generate_only") and rc == 0 and not nothing:
                chk.fail_oracle("ninja:cannot-start-ok", "ninja cannot be started but laze exits 0", {"scenario": sc})
        # ---- correspondence
        chk.disagreements_checked += 1
        if m is None or "ok" not in m:
            if rc == 0:
                chk.fail_disagree(f"impl rc 0, model {json.dumps(m)[:200]}", {"scenario": sc, "step": step})
            continue
        if inv.get("no_ninja"):
            want_rc = m["ok"]["rc"] if not m["ok"]["spawns"] else 1
            if (rc != 0) != (want_rc != 0):
                chk.fail_disagree(f"no ninja: impl rc {rc} model {want_rc}", {"scenario": sc, "step": step})
            continue
        ms = clirun.model_spawn_lines(m, step["root"])
        if [clirun.norm_spawn(l) for l in sp] != ms or rc != m["ok"]["rc"]:
            chk.fail_disagree(f"{inv}: impl rc {rc} spawns {sp} / model rc {m['ok']['rc']} spawns {ms}", {"scenario": sc, "step": step})
    if nt:
        chk.nontrivial.add(projcheck.phash(sc))
        if len(chk.samples) < 2:
            chk.samples.append({"invocations": sc["invocations"], "spawns": [s["spawns"] for s in steps]})


def big_project(nb, na, name_len):
    """nb builders x na apps with long names: the list of output paths of a selection is far beyond what small projects produce
    (hundreds of kilobytes of ninja arguments)"""
    pad = "x" * name_len
    ctx = {"name": "default", "env": {"bindir": "${build-dir}/out/${builder}/${app}"},
           "rules": [{"name": "CC", "in": "c", "out": "o", "cmd": "cc -c ${in} -o ${out}"},
                     {"name": "LINK", "in": "o", "cmd": "ld ${in} -o ${out}"}]}
    return {"files": {"laze-project.yml": [{
        "contexts": [ctx],
        "builders": [{"name": f"b{i}{pad}"} for i in range(nb)],
        "apps": [{"name": f"a{j}{pad}", "sources": [f"a{j}.c"]} for j in range(na)]}]}, "args": {}}


def big_scenario(chk, nb, na, name_len):
    """scale: a wide generate-only run, then a selection of all builders but one served from its cache; implementation-side oracle
    only (the targets handed to ninja are exactly the outputs of the selected configured builds)"""
    p = big_project(nb, na, name_len)
    builders = [b["name"] for b in p["files"]["laze-project.yml"][0]["builders"]]
    s = clirun.Scenario(p)
    try:
        r0 = s.invoke({"args": {}, "flags": {"generate_only": True}})
        outs = {(b["builder"], b["app"]): b["outfile"] for b in r0["dump"] if b["decision"] == "built"}
        chk.evaluations += 1
        if r0["rc"] != 0 or len(outs) != nb * na:
            chk.fail_oracle("ninja:big-project-not-generated", f"{nb}x{na} builds: exit {r0['rc']}, {len(outs)} configured: {r0['stderr'][-200:]}", {"big": [nb, na, name_len]})
            return
        for sel in (builders[:-1], builders[1:2]):
            inv = {"args": {"builders": sel}, "flags": {"jobs": 2}}
            r = s.invoke(inv)
            chk.evaluations += 1
            chk.count("big:hit" if r["cache_hit"] else "big:miss")
            nl = [l for l in r["spawns"] if l.startswith("N:")]
            want = sorted(o for (b, a), o in outs.items() if b in sel)
            if len(nl) != 1:
                chk.fail_oracle("ninja:big-spawn", f"{len(nl)} ninja invocations for a selection of {len(sel)} builders (exit {r['rc']}: {r['stderr'][-200:]})", {"big": [nb, na, name_len]})
                continue
            argv = nl[0][2:].split(" ")
            targets = sorted(a for a in argv[6:])        # -f file -j 2 -k 1
            chk.count("big:target-bytes", sum(len(t) + 1 for t in want))
            if argv[:6] != ["-f", "build/build-global.ninja", "-j", "2", "-k", "1"] or targets != want:
                missing = len(set(want) - set(targets))
                chk.fail_oracle("ninja:targets:large-selection", f"selection of {len(sel)}/{nb} builders x {na} apps ({sum(len(t) + 1 for t in want)} bytes of output paths): "
                                f"ninja got {len(targets)} targets, {missing} of the {len(want)} selected outputs are missing"
                                + (" — without targets ninja builds the whole file, which also contains the unselected builders" if not targets else ""),
                                {"big": [nb, na, name_len], "selection": sel[:3] + ["..."]})
        chk.nontrivial.add(f"big-{nb}-{na}-{name_len}")
    finally:
        s.close()


def run(chk):
    n = 300 if chk.tier == "quick" else 2500
    chk.rule = ("scenarios = project x sequence of 2-4 laze invocations (wide run, then narrower --builders/--apps runs that hit the cache, "
                "-G, -j/-k/-v, clean/-u, ninja exit codes 0/1/2/130, ninja missing) against the real CLI with a stand-in ninja that logs "
                "argv; oracle: file, flags, targets = outputs of exactly the selected configured builds, exit status; model compared on spawn "
                "list + exit status; non-trivial = a selection served from the cache of an earlier run; distinct by scenario hash")
    scs = [gen_scenario(chk.seed, i) for i in range(n)]
    # the directed task scenarios of C16 (the task is runnable everywhere; `build:` may differ between the builds' definitions of it):
    # ninja is asked for exactly the outputs of the runnable matches whose definition says `build: true`
    from . import c16
    for i in range(n // 3):
        d = c16.directed_scenario(chk.seed + 1818, i)
        scs.append({"project": d["project"], "invocations": ([d["warmup"]] if d.get("warmup") else []) + d["invocations"]})
    for sc, steps in common.parallel_map(worker, scs):
        judge(chk, sc, steps)
    for nb, na, ln in ([(24, 40, 60)] if chk.tier == "quick" else [(24, 40, 60), (46, 50, 8), (60, 60, 40)]):
        big_scenario(chk, nb, na, ln)
    chk.assumptions = ["process spawning itself (std::process::Command, PATH lookup) is not modelled; observed through stand-in executables"]
    return chk.finish()


def replay(chk, path):
    r0 = json.load(open(path))
    sc = r0["case"]["scenario"]
    (sc, steps), = worker([sc])
    for s in steps:
        print(s["inv"], "rc", s["rc"], s["spawns"], "| model", (s["model"] or {}).get("ok"))
    judge(chk, sc, steps)
    chk.note_case({"scenario": sc["invocations"]}, True)
    return chk.finish()
