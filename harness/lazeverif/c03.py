"""C03 — each build compiles and links exactly the sources of its selected modules."""
import json
from . import common, projgen, projcheck, projrun, ninjaparse

PROF = projgen.profile(p_optsrc=0.45, p_rules_override=0.5, p_postlink=0.35, p_srcdir=0.25, p_subdir=0.5,
                       p_custom_build=0.1, p_download=0.08, p_tasks=0.05, p_varopts=0.1, p_nonshare=0.3)
OBS = ("status", "decision", "modules", "loaded", "outfile", "ninja")


def contexts_of(p):
    out = {}
    for docs in p["files"].values():
        for d in docs:
            for c in (d.get("contexts") or []) + (d.get("builders") or []):
                out[c["name"]] = c
    return out


def chain_of(ctxs, c):
    out = []
    while c is not None and c in ctxs and c not in out:
        out.append(c)
        c = None if c == "default" else ctxs[c].get("parent", "default")
    if "default" not in out:
        out.append("default")
    return out


def nearest_rule(ctxs, chain, ext=None, name=None):
    for cn in chain:
        c = ctxs.get(cn)
        if not c:
            continue
        # within one context a later rule with the same key replaces an earlier one
        hit = None
        for r in c.get("rules") or []:
            if ext is not None and r.get("in") == ext:
                hit = r
            if name is not None and r["name"] == name:
                hit = r
        if hit:
            return hit
    return None


def ext_of(path):
    f = path.split("/")[-1]
    if "." not in f.lstrip("."):
        return None
    return f.rsplit(".", 1)[1]


def join(a, b):
    if b.startswith("/"):
        return b
    if a == "":
        return b
    return a + b if a.endswith("/") else a + "/" + b


def oracle(chk, p, r, m):
    if projrun.impl_status(r) != "ok" or not r["ninja"]:
        return
    try:
        pn = ninjaparse.parse(r["ninja"])
    except ninjaparse.ParseError as e:
        chk.fail_oracle("ninja:unparsable", str(e), {"project": p})
        return
    prod = ninjaparse.producers(pn)
    rules = {x["name"]: x for x in pn["rules"]}
    ctxs = contexts_of(p)
    # expansions needed: source paths in module envs, ${outfile} in the global env
    reqs, keys = [], []
    blds = projcheck.built(r)
    for b in blds:
        names = {x["name"] for x in b["modules"]}
        reqs.append({"op": "expand", "s": "${outfile}", "vars": [kv for kv in b["global_flat"] if kv[0] != "out"], "pol": "empty"})
        keys.append((b["builder"], b["app"], "outfile"))
        for x in b["modules"]:
            if x["srcdir"] is None or x["has_build"] or isinstance(x["env_flat"], dict):
                continue
            srcs = list(x["sources"])
            for g, l in (x.get("sources_optional") or {}).items():
                if g in names:
                    srcs += l
            for s in srcs:
                reqs.append({"op": "expand_eval", "s": join(x["srcdir"], s), "vars": x["env_flat"], "pol": "empty"})
                keys.append((b["builder"], b["app"], "src", x["name"], s))
    ans = common.oracle(reqs) if reqs else []
    exp = {k: (a.get("ok") if a else None) for k, a in zip(keys, ans)}
    for b in blds:
        key = (b["builder"], b["app"])
        chain = chain_of(ctxs, b["builder"])
        out = b["outfile"]
        link_out = exp.get(key + ("outfile",))
        post = nearest_rule(ctxs, chain, name="POST_LINK")
        if post is not None and post.get("out") is not None and link_out is not None:
            want = link_out.rsplit(".", 1)[0] + "." + post["out"] if "." in link_out.split("/")[-1] else link_out + "." + post["out"]
            chk.count("post-link")
        else:
            want = link_out
        if want != out:
            chk.fail_oracle("link:outfile", f"{key}: output file {out!r}, ${{outfile}} (+POST_LINK) says {want!r}", {"project": p, "build": list(key)})
            continue
        link = prod.get(link_out or out, [])
        if len(link) != 1:
            if len(link) == 0:
                chk.fail_oracle("link:no-link-statement", f"{key}: nothing produces {link_out}", {"project": p, "build": list(key)})
            continue   # several producers: C06's business (outfile collisions)
        link = link[0]
        if not link["rule"].startswith("LINK_"):
            chk.fail_oracle("link:rule", f"{key}: {link_out} is produced by {link['rule']}", {"project": p, "build": list(key)})
        # multiset of sources behind the link inputs
        got = []
        bad = None
        for o in link["inputs"]:
            ps = prod.get(o, [])
            if len(ps) > 1:
                # one path written by several statements is C06's subject (known findings: non-shareable rule + the same source in two
                # modules of one build; colliding custom outs): which statement feeds this link cannot be told, the build is skipped here
                bad = "several"
                break
            if len(ps) != 1 or len(ps[0]["inputs"]) != 1:
                bad = f"object {o} has {len(ps)} producing statements"
                break
            got.append((ps[0]["inputs"][0], ps[0]["rule"], o))
        if bad == "several":
            chk.count("skipped:object-with-several-producers (C06)")
            continue
        if bad:
            chk.fail_oracle("link:object-producer", f"{key}: {bad}", {"project": p, "build": list(key)})
            continue
        want_srcs = []
        names = {x["name"] for x in b["modules"]}
        for x in b["modules"]:
            if x["srcdir"] is None or x["has_build"] or isinstance(x["env_flat"], dict):
                continue
            srcs = list(x["sources"])
            for g, l in (x.get("sources_optional") or {}).items():
                if g in names:
                    srcs += l
                    chk.count("optional-source-in")
                else:
                    chk.count("optional-source-out")
            for s in srcs:
                sp = exp.get(key + ("src", x["name"], s))
                want_srcs.append((sp, s))
        if sorted(g[0] for g in got) != sorted(w[0] for w in want_srcs if w[0] is not None):
            chk.fail_oracle("link:sources", f"{key}: link consumes objects of {sorted(g[0] for g in got)}, selected modules have {sorted(w[0] for w in want_srcs)}",
                            {"project": p, "build": list(key)})
            continue
        # each object is produced by the nearest rule for its extension (extension taken from the source as written)
        by_src = {}
        for sp, s in want_srcs:
            by_src.setdefault(sp, []).append(s)
        for sp, rule, o in got:
            written = by_src.get(sp, [sp])[0]
            e = ext_of(written)
            nr = nearest_rule(ctxs, chain, ext=e)
            if nr is None:
                continue
            chk.count("rule-depth:" + str(next((i for i, cn in enumerate(chain) if nr in (ctxs.get(cn, {}).get("rules") or [])), -1)))
            if not (rule.startswith(nr["name"] + "_") and rule in rules):
                chk.fail_oracle("compile:rule", f"{key}: {sp} compiled by {rule}, nearest rule for .{e} is {nr['name']}", {"project": p, "build": list(key)})
                break
            cmd = rules[rule]["vars"].get("command", "")
            marker = nr["cmd"].split(" ")[0]
            if marker and not nr.get("export") and "${" not in marker and not cmd.startswith(marker):
                chk.fail_oracle("compile:rule-command", f"{key}: {sp}: rule {rule} has command {cmd!r}, nearest rule's command starts with {marker!r}",
                                {"project": p, "build": list(key)})
                break


def nontrivial(chk, p, r, m):
    for b in projcheck.built(r):
        with_src = [x for x in b["modules"] if x["sources"] or x.get("sources_optional")]
        if len(with_src) >= 2 and (any(x.get("sources_optional") for x in b["modules"]) or b["builder"] != "default"):
            return True
    return False


def run(chk):
    n = 900 if chk.tier == "quick" else 10000
    chk.rule = ("random projects (sub-directories, optional source maps, rules overridden in child contexts, srcdir, POST_LINK, custom "
                "builds, downloads) through the real CLI; the whole ninja file (hash-derived numbers renamed by first occurrence) is compared "
                "with the model's; oracle parses the ninja file: link inputs = one object per (expanded) source of the selected modules, "
                "each produced once by the nearest rule for its extension; output file = ${outfile} (+POST_LINK); non-trivial = a configured "
                "build has >=2 modules with sources and an optional source map or a non-root builder; distinct by project hash")
    projcheck.campaign(chk, PROF, n, OBS, oracle, nontrivial)
    chk.assumptions = ["source paths and ${outfile} are expanded with the implementation's own expand (covered by C13) in the dumped environments",
                       "hash-derived numbers are compared modulo renaming (HashOK: no 64-bit collision within a run)"]
    return chk.finish()


def replay(chk, path):
    return projcheck.replay_project(chk, path, OBS, oracle)
