"""C15 — malformed projects are rejected with a diagnostic, never a crash."""
import copy, json, random, re
from . import common, projgen, projcheck, projrun

PROF = projgen.profile(p_cycle=0.05, p_hard_missing=0.1, p_tasks=0.3, p_custom_build=0.15, p_download=0.15, p_build_dep=0.25,
                       p_global_build_dep=0.1, p_varopts=0.25, p_subdir=0.4, p_defaults=0.4, p_ctxlist=0.2, p_include=0.2)
OBS = ("status",)
BAD_STRINGS = ["", "é", "${", "${X", "$(", "$(1+", "$(nosuch(1))", "${OPT}${OPT", "\\", "a b", "-", "?", "context::x", "é${X}", "$$(", "}"]


SERDE = re.compile(r"invalid type|missing field|unknown field|unknown variant|did not find expected|expected single value|invalid value|"
                   r"data did not match|expected a|mapping values are not allowed|while parsing|duplicate entry|duplicate field|invalid length|"
                   r"error: invalid value|cannot parse assignment|No such file|not a directory|Is a directory|export entries must be|no variant of enum")


def walk(o, path=()):
    """all (container, key) slots of a JSON-like tree"""
    if isinstance(o, dict):
        for k in list(o.keys()):
            yield (o, k, path + (k,))
            yield from walk(o[k], path + (k,))
    elif isinstance(o, list):
        for i in range(len(o)):
            yield (o, i, path + (i,))
            yield from walk(o[i], path + (i,))


def mutate(p, rng):
    """one structural mutation of a valid project; returns (project, description)"""
    q = copy.deepcopy(p)
    files = q["files"]
    root = files["laze-project.yml"][0]
    kind = rng.choice(["delete", "type", "string", "string", "empty-list", "parent-cycle", "parent-cycle-tail", "self-include", "dup", "unknown-ref",
                       "no-ext", "no-rule", "bad-expr", "empty-name", "defaults-ctxlist", "export-empty-map", "notify-string",
                       "builddep-nofiles", "download-norule", "cli", "var-cycle", "nameless-dir", "nameless-dir", "imports-local", "imports-local"])
    slots = [s for f in files.values() for d in f for s in walk(d)]
    if kind == "delete" and slots:
        c, k, path = rng.choice(slots)
        del c[k]
    elif kind == "type" and slots:
        c, k, path = rng.choice(slots)
        c[k] = rng.choice([None, 1, True, [], {}, "str", ["a", 1], {"a": "b"}])
    elif kind == "string":
        strs = [(c, k) for c, k, path in slots if isinstance(c[k], str)]
        if strs:
            c, k = rng.choice(strs)
            c[k] = rng.choice(BAD_STRINGS) if rng.random() < 0.6 else c[k] + rng.choice(BAD_STRINGS)
    elif kind == "empty-list":
        ls = [(c, k) for c, k, path in slots if isinstance(c[k], list)]
        if ls:
            c, k = rng.choice(ls)
            c[k] = [] if rng.random() < 0.5 else [""]
    elif kind == "parent-cycle":
        cs = root["contexts"] + root["builders"]
        a = rng.choice(cs)
        b = rng.choice(cs)
        if a["name"] != "default":
            a["parent"] = b["name"]
            if b["name"] != "default":
                b["parent"] = a["name"]
    elif kind == "parent-cycle-tail":
        # contexts that are not on a cycle themselves but whose parent chain runs into one, at random list positions
        k = rng.randint(2, 3)
        cyc = [{"name": f"cy{i}", "parent": f"cy{(i + 1) % k}"} for i in range(k)]
        tails = [{"name": "tail0", "parent": rng.choice(cyc)["name"]}]
        if rng.random() < 0.5:
            tails.append({"name": "tail1", "parent": "tail0"})
        for c in cyc + tails:
            lst = root[rng.choice(["contexts", "builders"])]
            lst.insert(rng.randint(0, len(lst)), c)
    elif kind == "self-include":
        f = rng.choice(list(files.keys()))
        files[f][0][rng.choice(["includes", "subdirs"])] = [rng.choice([f.split("/")[-1], ".", "../" + f])]
    elif kind == "dup":
        r = rng.random()
        if r < 0.5:
            root["contexts"].append(copy.deepcopy(rng.choice(root["contexts"] + root["builders"])))
        else:
            for d in files["laze-project.yml"]:
                if d.get("modules"):
                    d["modules"].append(copy.deepcopy(rng.choice(d["modules"])))
                    break
    elif kind == "unknown-ref":
        r = rng.random()
        if r < 0.3:
            root["contexts"].append({"name": "orph", "parent": "nosuch"})
        elif r < 0.6:
            q["args"]["builders"] = ["nosuch"]
        else:
            q["args"]["apps"] = ["nosuchapp"]
    elif kind in ("no-ext", "no-rule", "bad-expr", "empty-name", "notify-string", "builddep-nofiles", "download-norule", "export-empty-map", "var-cycle"):
        mods = [m for k_, m, path in projcheck.yaml_modules(q)]
        if mods:
            m = rng.choice(mods)
            if not isinstance(m.get("env", {}), dict) or any(not isinstance(v, dict) for v in (m.get("env") or {}).values()):
                m["env"] = {}          # an earlier mutation replaced the env by something else
            if kind == "no-ext":
                m["sources"] = (m.get("sources") or []) + [rng.choice(["noext", "dir/noext", ".hidden", "a."])]
            elif kind == "no-rule":
                m["sources"] = (m.get("sources") or []) + ["x.unknownext"]
            elif kind == "bad-expr":
                m["sources"] = (m.get("sources") or []) + [rng.choice(["$(1+).c", "${nosuch.c", "$(foo(1)).c"])]
            elif kind == "empty-name":
                # empty names, an optional marker without a name, removal entries without a name — alone and next to each other
                key = rng.choice(["selects", "depends", "uses"])
                m[key] = rng.choice([[""], [""], ["?"], ["-"], ["?", "-x"], ["-x", "?"], ["?", "-"], ["?-"], ["-?"], ["?", "?"]])
                if rng.random() < 0.3:
                    # one half from the defaults of the document, the other in the module
                    for docs in files.values():
                        for d in docs:
                            if isinstance(d, dict) and any(x is m for x in (d.get("modules") or []) + (d.get("apps") or []) if isinstance(x, dict)):
                                dk = "app" if any(x is m for x in (d.get("apps") or [])) else "module"
                                if isinstance(d.get("defaults"), dict) or "defaults" not in d:
                                    d.setdefault("defaults", {}).setdefault(dk, {})[key] = ["?"]
                                    m[key] = ["-x"]
            elif kind == "notify-string":
                m.setdefault("env", {}).setdefault(rng.choice(["export", "global"]), {})["notify"] = "x"
            elif kind == "builddep-nofiles":
                m["is_build_dep"] = True
                m.pop("build", None); m.pop("download", None)
                if rng.random() < 0.3:
                    m["is_global_build_dep"] = True
            elif kind == "download-norule":
                m["download"] = {"git": {"url": "u", "commit": "c"}, "patches": ["p"]}
                projcheck.default_context(q)["rules"] = [r for r in projcheck.default_context(q).get("rules", []) if not r["name"].startswith("GIT_")]
            elif kind == "export-empty-map":
                projcheck.default_context(q).setdefault("rules", [{"name": "CC", "in": "c", "out": "o", "cmd": "cc"}])[0]["export"] = [{}]
            elif kind == "var-cycle":
                # a self reference, possibly closed only after references to names defined nowhere (which the lenient policies skip)
                m.setdefault("env", {}).setdefault(rng.choice(["local", "export", "global"]), {})["CFLAGS"] = rng.choice(
                    ["${CFLAGS}", "${CFLAGS}", "${NOWHERE_A} -Os ${CFLAGS}", "${NOWHERE_A} ${NOWHERE_B} ${CFLAGS}", ["${NOWHERE_A}", "x", "${CFLAGS}"]])
                if rng.random() < 0.3:
                    dc = projcheck.default_context(q).setdefault("env", {})
                    if isinstance(dc, dict):
                        dc["DEFS"] = "${NOWHERE_A} ${LIBS}"
                        dc["LIBS"] = "${NOWHERE_B} ${NOWHERE_A} ${DEFS}"
                if rng.random() < 0.5:
                    projcheck.default_context(q).setdefault("env", {})["outfile"] = "${outfile}"
    elif kind == "nameless-dir":
        # a module without a name takes the name of its directory: a sub-directory named like an existing module, like a context
        # module (`context::<name>`: not writable as an explicit name) or with odd characters; optionally with the `default` context
        # left implicit
        ctxs = [c["name"] for c in (root.get("contexts") or []) + (root.get("builders") or []) if isinstance(c, dict) and isinstance(c.get("name"), str)]
        mods = [m["name"] for k_, m, path in projcheck.yaml_modules(q) if isinstance(m.get("name"), str)]
        name = rng.choice(["context::" + rng.choice(ctxs or ["default"]), "context::default", rng.choice(mods or ["m0"]), "é", "a b", "${x}", "-"])
        if rng.random() < 0.4 and isinstance(root.get("contexts"), list):
            root["contexts"] = [c for c in root["contexts"] if not (isinstance(c, dict) and c.get("name") == "default")]
        ctx = rng.choice([None, None] + ctxs)
        m = {"sources": ["x.c"]}
        if ctx:
            m["context"] = ctx
        files[name + "/laze.yml"] = [{rng.choice(["modules", "modules", "apps"]): [m] + ([{"sources": ["y.c"]}] if rng.random() < 0.2 else [])}]
        root["subdirs"] = list(root.get("subdirs") or []) + [name]
    elif kind == "imports-local":
        # `imports:` with a local path (not part of the model: only the no-crash oracle applies)
        path = rng.choice(["..", ".", "", "/", "vendor/lib", "nosuchdir", "vendor/..", "vendor/lib/", "é"])
        imp = {"path": path}
        if rng.random() < 0.7:
            imp["symlink"] = True
        if rng.random() < 0.3:
            imp["name"] = rng.choice(["lib", "", "a/b", ".."])
        if rng.random() < 0.3:
            imp["dldir"] = rng.choice(["../../x", "", "a/b", "..", "/abs", "/", "//", "."])
        lib = {"modules": [{"name": "implib", "sources": ["implib.c"]}]}
        if rng.random() < 0.4:
            # the imported file includes a file OUTSIDE its import root that defines a module without a name (named after its
            # directory relative to the import root)
            lib["includes"] = [rng.choice(["../outside.yml", "../../outside.yml", "@ROOT@/outside.yml", "@ROOT@/vendor/outside.yml"])]
            files["vendor/outside.yml"] = [{"modules": [{"sources": ["o.c"]}]}]
            files["outside.yml"] = [{"modules": [{"sources": ["o.c"]}]}]
        files["vendor/lib/" + rng.choice(["laze-lib.yml", "laze-lib.yml", "laze.yml", "other.yml"])] = [lib]
        if rng.random() < 0.5:
            imp["path"] = "vendor/lib"
        if rng.random() < 0.3:
            # the other import kinds (built-in `laze:` files, a command) with a download directory outside the imports directory:
            # `..` components or an absolute path (inside the scratch project) — accepted or reported, never a crash
            imp = {rng.choice(["laze", "laze", "command"]): rng.choice(["defaults", "defaults", "nosuch", ""])}
            if "command" in imp:
                imp["command"] = rng.choice(["true", "false", "mkdir -p ${dldir} && touch ${dldir}/laze-lib.yml"])
                imp["name"] = "cmdimp"
            imp["dldir"] = rng.choice(["../laze-defaults", "../../x", "a/../b", "..", "@ROOT@/absdl", "@ROOT@/vendor/../absdl", "x/y", ""])
        root["imports"] = list(root.get("imports") or []) + [imp]
    elif kind == "defaults-ctxlist":
        files["laze-project.yml"][0]["defaults"] = {rng.choice(["module", "app"]): {"context": rng.choice([["default", "c1"], [], ["default"], ["nosuch"], [""]])}}
    elif kind == "cli":
        if rng.random() < 0.25:
            # names with blanks / empty names in --builders / --apps (`-b "b0, b1"`): unknown names, reported as such
            names = [b.get("name") for b in (root.get("builders") or []) if isinstance(b, dict) and isinstance(b.get("name"), str)] or ["b0"]
            q["args"][rng.choice(["builders", "apps"])] = rng.choice([[names[0], " " + names[-1]], [names[0] + " "], [""], [" "], [names[0], ""]])
        else:
            q["args"][rng.choice(["select", "disable", "define"])] = [rng.choice(["", "=", "+=x", "V", "?", "é=é", "a,b", "V=a+=b", "V=a,b=c", " m0", "m0 "])]
    return q, kind


def gen_case(seed, i):
    rng = random.Random(seed * 4243 + i)
    p = projgen.gen_project(seed + 1500, i, PROF)
    q, kind = mutate(p, rng)
    if rng.random() < 0.25:
        try:
            q, k2 = mutate(q, rng)
            kind += "+" + k2
        except (KeyError, TypeError, AttributeError, IndexError):
            pass            # the first mutation removed or retyped what the second one wanted to edit: keep the single mutation
    q["_mutation"] = kind
    return q


def panic_site(stderr):
    m = re.search(r"panicked at ([^\n]+)", stderr or "")
    if m:
        loc = m.group(1).strip().rstrip(":")
        loc = re.sub(r":\d+:\d+$", "", loc)      # line numbers move; the file identifies the site class
        return loc
    return None


def oracle(chk, p, r, m):
    st = projrun.impl_status(r)
    chk.count("mutation:" + p.get("_mutation", "?").split("+")[0])
    if st in ("ok", "error", "usage"):
        if st != "ok" and not (r["stderr"] or "").strip():
            chk.fail_oracle("crash:silent-failure", f"exit status {r['rc']} without a diagnostic", {"project": p})
        return
    if st == "panic":
        site = panic_site(r["stderr"]) or "unknown"
        msg = re.search(r"panicked at [^\n]+\n([^\n]*)", r["stderr"] or "")
        what = (msg.group(1) if msg else "")[:120]
        chk.fail_oracle(f"crash:panic:{site}:{re.sub(r'[^A-Za-z ]+', '', what)[:40].strip()}", f"laze panics ({site}: {what}) on mutation {p.get('_mutation')}", {"project": p})
    elif st == "hang":
        chk.fail_oracle("crash:hang:" + p.get("_mutation", "?").split("+")[0], f"laze does not terminate within the timeout (mutation {p.get('_mutation')})", {"project": p})
    else:
        chk.fail_oracle(f"crash:{st}", f"laze dies with {st} (mutation {p.get('_mutation')}): {(r['stderr'] or '')[-150:]!r}", {"project": p})


SEQS = [
    [("plain", ()), ("info-export", ("-i", "info.json")), ("info-export-again", ("-i", "info.json"))],
    [("info-export", ("-i", "info.json")), ("plain", ()), ("verbose", ("-v", "-v"))],
    [("plain", ()), ("compile-commands-off", ("-j", "3", "-k", "0")), ("info-export", ("--info-export", "sub/../info2.json"))],
]


def seq_worker(jobs):
    """"any command line": a few invocations after one another in ONE build directory (the second may be served from the cache of
    the first): none may crash"""
    import os, shutil, tempfile
    out = []
    for p, k in jobs:
        os.makedirs(projrun.SCRATCH, exist_ok=True)
        d = tempfile.mkdtemp(prefix="q", dir=projrun.SCRATCH)
        res = []
        try:
            projrun.write_project(d, p["files"])
            os.makedirs(os.path.join(d, "sub"), exist_ok=True)
            for name, more in SEQS[k % len(SEQS)]:
                r = projrun.run_laze(d, p.get("args", {}), more=more, retry=False, timeout=120)
                projrun.read_dump(d)
                res.append((name, projrun.impl_status(r), (r["stderr"] or "")[-600:], "laze: reading cache took" in (r["stdout"] or "")))
        finally:
            shutil.rmtree(d, ignore_errors=True)
        out.append((p, k, res))
    return out


def nontrivial(chk, p, r, m):
    return projrun.impl_status(r) in ("error", "usage")


def run(chk):
    n = 1500 if chk.tier == "quick" else 30000
    chk.rule = ("valid random projects + 1-2 structural mutations (field deletion, type confusion, empty/non-ASCII/unclosed strings, empty lists and "
                "names, parent cycles, self includes, duplicates, unknown references, sources without extension/rule, bad expressions, variable "
                "cycles, missing download rules, malformed -s/-d/-D) through the real CLI (10 s timeout); oracle: exit status 0/1/2 with a "
                "diagnostic, never a panic (101), abort, signal or hang; the model's accept/reject/panic/hang class is compared; translator "
                "obligation: every panic site in /repo/src is in the reviewed table; non-trivial = the mutated project is rejected; distinct by project hash")
    chk.extra["translator_obligations"] = ["Laze.C15.panic_sites_reviewed (Generated.panicSites ⊆ reviewed)"]
    corpus = [c["project"] for c in common.load_corpus(chk.prop) if "project" in c]
    chk.count("corpus-cases", len(corpus))
    projects = corpus + [gen_case(chk.seed, i) for i in range(n)]
    results = projrun.run_projects(projects)
    for p, r, m in results:
        chk.evaluations += 1
        st = projrun.impl_status(r)
        chk.count(f"status:{st}/{projrun.model_status(m)}")
        if nontrivial(chk, p, r, m):
            chk.nontrivial.add(projcheck.phash(p))
            if len(chk.samples) < 2:
                chk.samples.append({"mutation": p.get("_mutation"), "stderr": (r["stderr"] or "")[-200:], "args": p["args"]})
        oracle(chk, p, r, m)
        if st == "error" and SERDE.search(r["stderr"] or ""):
            chk.count("rejected-by-serde/clap (not modelled)")
            continue
        if any(isinstance(d, dict) and "imports" in d for docs in p["files"].values() for d in docs):
            chk.count("imports (not modelled: no-crash oracle only)")
            continue
        chk.disagreements_checked += 1
        for obs, what in projrun.compare(r, m, OBS)[:1]:
            chk.fail_disagree(f"{obs}: {what} (mutation {p.get('_mutation')})", {"project": p})
    # valid projects whose TASKS fail (a command exits 1 or is killed by a signal; one or several targets with -m / -k N): laze reports
    # that with exit status 1 — not with a crash, and not with a status that counts the failures (2 is the usage-error status of the
    # command line parser, 256 failures would wrap to 0)
    from . import c16
    tsc = [c16.directed_scenario(chk.seed + 150, i) for i in range(60 if chk.tier == "quick" else 1500)]
    for sc, step in common.parallel_map(c16.worker, tsc):
        chk.evaluations += 1
        chk.count("task-scenario:rc%s" % step["rc"])
        m = step.get("model")
        if step["rc"] not in (0, 1):
            chk.fail_oracle("crash:task-run-status", f"{step['inv']}: a run whose tasks fail exits with {step['rc']} ({(step.get('stderr') or '')[-160:]!r}); "
                            "failures are reported with status 1", {"scenario": sc})
        elif m is not None and "ok" in m and m["ok"]["rc"] != step["rc"]:
            chk.fail_disagree(f"{step['inv']}: impl rc {step['rc']} / model rc {m['ok']['rc']}", {"scenario": sc})
    # a known finding, reproduced on every run: a dependency chain deeper than the main-thread stack allows
    n_chain = 30000
    mods = [{"name": f"m{i}", "depends": [f"m{i + 1}"]} for i in range(n_chain)] + [{"name": f"m{n_chain}"}]
    deep = {"files": {"laze-project.yml": [{"contexts": [{"name": "default", "env": {"bindir": "${build-dir}/out/${builder}/${app}"},
                                                            "rules": [{"name": "CC", "in": "c", "out": "o", "cmd": "cc -c ${in} -o ${out}"},
                                                                      {"name": "LINK", "in": "o", "cmd": "ld ${in} -o ${out}"}]}],
                                              "builders": [{"name": "b", "parent": "default"}], "modules": mods,
                                              "apps": [{"name": "a", "sources": ["a.c"], "depends": ["m0"]}]}]}, "args": {}}
    rdeep = projrun.run_impl(deep)
    chk.evaluations += 1
    stdeep = projrun.impl_status(rdeep)
    chk.count("deep-chain:" + stdeep)
    if stdeep not in ("ok", "error", "usage"):
        chk.fail_oracle("crash:stack-overflow:deep-dependency-chain" if "overflowed its stack" in (rdeep["stderr"] or "") else f"crash:deep-chain:{stdeep}",
                        f"a dependency chain of {n_chain} modules: laze dies with {stdeep}: {(rdeep['stderr'] or '')[-120:]!r}",
                        {"generate": "deep_chain", "n": n_chain})
    # sequences of command lines in one build directory, on the projects that were accepted
    okp = [p for p, r, m in results if projrun.impl_status(r) == "ok"][: (120 if chk.tier == "quick" else 2000)]
    for p, k, res in common.parallel_map(seq_worker, [(p, i) for i, p in enumerate(okp)]):
        for name, st, err, hit in res:
            chk.evaluations += 1
            chk.count(f"sequence:{name}:{st}" + (":cache-hit" if hit else ""))
            if st not in ("ok", "error", "usage"):
                site = panic_site(err) or st
                chk.fail_oracle(f"crash:sequence:{name}:{site}", f"laze dies with {st} on the invocation `{name}` of sequence {[n for n, _ in SEQS[k % len(SEQS)]]} "
                                f"in one build directory: {err[-200:]!r}", {"project": p, "sequence": k % len(SEQS)})
    chk.assumptions = ["serde_yaml, clap and the host stack limit are not modelled; YAML-level mutations are fuzzing, not proof",
                       "the model receives the same (possibly ill-typed) documents through its own lenient JSON reader: type-confusion mutations are compared on status class only"]
    return chk.finish()


def replay(chk, path):
    return projcheck.replay_project(chk, path, OBS, oracle)
