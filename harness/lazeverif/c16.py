"""C16 — tasks are offered and executed only where their requirements hold."""
import re, json, random, copy
from . import common, projgen, projcheck, projrun, clirun

PROF = projgen.profile(n_builders=(1, 3), n_apps=(1, 3), p_tasks=0.75, p_task_fail=0.3, p_task_killed=0.15, p_cli_builders=0.0, p_cli_apps=0.0,
                       p_cli_select=0.2, p_cli_disable=0.15, p_cli_define=0.3, p_custom_build=0.02, p_download=0.02, p_app_elsewhere=0.1,
                       p_hard_missing=0.0, p_cycle=0.0, p_varopts=0.1, p_empty_task_map=0.15)
TASKS = ["run", "flash", "info", "mtask", "nosuchtask"]


def gen_scenario(seed, i):
    rng = random.Random(seed * 6271 + i)
    p = projgen.gen_project(seed + 1600, i, PROF)
    builders = [b["name"] for b in p["files"]["laze-project.yml"][0]["builders"]]
    apps = sorted({m["name"] for kind, m, path in projcheck.yaml_modules(p) if kind == "apps"})
    a = dict(p["args"])
    r = rng.random()
    if r < 0.45:
        a["builders"] = rng.sample(builders, 1)
        a["apps"] = rng.sample(apps, 1)
    elif r < 0.65:
        a["apps"] = rng.sample(apps, rng.randint(1, len(apps)))
    elif r < 0.8:
        a["builders"] = rng.sample(builders, rng.randint(1, len(builders)))
    fl = {}
    if rng.random() < 0.45:
        fl["multiple"] = True
    if rng.random() < 0.5:
        fl["keep_going"] = rng.choice([0, 1, 2, 3])
    if rng.random() < 0.15:
        fl["generate_only"] = True
    if rng.random() < 0.2:
        fl["verbose"] = 1
    defined = set()
    for kind, m, path in projcheck.yaml_modules(p):
        defined |= set((m.get("tasks") or {}).keys())
    for d in p["files"]["laze-project.yml"]:
        for c in (d.get("contexts") or []) + (d.get("builders") or []):
            defined |= set((c.get("tasks") or {}).keys())
    for docs in p["files"].values():
        for d in docs:
            for dm in (d.get("defaults") or {}).values():
                if isinstance(dm, dict):
                    defined |= set((dm.get("tasks") or {}).keys())      # tasks inherited from `defaults:`
    pool = sorted(defined) * 4 + TASKS if defined else TASKS
    inv = {"args": a, "flags": fl, "task": rng.choice(pool), "task_args": rng.choice([[], [], ["x"], ["-a", "b c"]]),
           "ninja_rc": rng.choice([0, 0, 0, 1, "kill"])}
    sc = {"project": p, "invocations": [inv]}
    if rng.random() < 0.4:
        # a wider generate-only run first: the task run is then served from its cache (which lists every build of the wide run)
        sc["warmup"] = {"args": {k: v for k, v in a.items() if k in ("select", "disable", "define")}, "flags": {"generate_only": True}}
    return sc


def directed_scenario(seed, i):
    """a small project in which the requested task IS defined and runnable for every selected build, so that what the commands do
    decides: 1-3 commands, one of them possibly failing (`FAILME`) or killed by a signal (`KILLME`, with / without `ignore_ctrl_c`),
    on the root context / a builder / an app; 1-3 builders x 1-3 apps; -m, -k N, -G, build: true|false, ninja's verdict"""
    rng = random.Random(seed * 8863 + i)
    nb, na = rng.randint(1, 3), rng.randint(1, 3)
    cmds = [f"step{j} ${{builder}} ${{app}}" for j in range(rng.randint(1, 3))]
    bad = rng.choice(["", "", " FAILME", " FAILME", " KILLME", " KILLME"])
    per_builder = bad and rng.random() < 0.5          # the command fails for some builders only
    k = rng.randrange(len(cmds))
    cmds[k] += (" ${BADNESS}" if per_builder else bad)
    task = {"cmd": cmds, "build": rng.random() < 0.5}
    if rng.random() < 0.4:
        task["ignore_ctrl_c"] = True
    ctx = {"name": "default", "env": {"bindir": "${build-dir}/out/${builder}/${app}", "BADNESS": ""},
           "rules": [{"name": "CC", "in": "c", "out": "o", "cmd": "cc -c ${in} -o ${out}"}, {"name": "LINK", "in": "o", "cmd": "ld ${in} -o ${out}"}]}
    builders = [{"name": f"b{j}", "parent": "default"} for j in range(nb)]
    for b in builders:
        if per_builder and rng.random() < 0.7:
            b["env"] = {"BADNESS": bad.strip()}
    apps = [{"name": f"a{j}", "sources": [f"a{j}.c"]} for j in range(na)]
    where = rng.choice(["context", "context", "builder", "app"])
    mixed = rng.random() < 0.5        # the definitions of the task differ in `build:` between the builds (the FIRST one must not decide)

    def variant():
        t = copy.deepcopy(task)
        if mixed:
            t["build"] = rng.random() < 0.5
        return t
    if where == "context":
        ctx["tasks"] = {"dt": task}
        if mixed:
            for b in builders[1:] if rng.random() < 0.5 else builders[:1]:
                b["tasks"] = {"dt": dict(copy.deepcopy(task), build=not task["build"])}
    elif where == "builder":
        for b in builders:
            b["tasks"] = {"dt": variant()}
    else:
        for a in apps:
            a["tasks"] = {"dt": variant()}
    p = {"files": {"laze-project.yml": [{"contexts": [ctx], "builders": builders, "apps": apps}]}, "args": {}}
    a = {}
    fl = {}
    r = rng.random()
    if r < 0.4:
        a = {"builders": [rng.choice(builders)["name"]], "apps": [rng.choice(apps)["name"]]}
    elif r < 0.6:
        a = {"builders": [b["name"] for b in rng.sample(builders, rng.randint(1, nb))]}
    if rng.random() < 0.6 or not (a.get("builders") and a.get("apps")):
        fl["multiple"] = True
    if rng.random() < 0.7:
        fl["keep_going"] = rng.choice([0, 1, 2, 3])
    if rng.random() < 0.15:
        fl["generate_only"] = True
    inv = {"args": a, "flags": fl, "task": "dt", "task_args": rng.choice([[], [], ["x"]]), "ninja_rc": rng.choice([0, 0, 0, 1, "kill"])}
    sc = {"project": p, "invocations": [inv], "directed": True}
    if rng.random() < 0.3:
        sc["warmup"] = {"args": {}, "flags": {"generate_only": True}}
    return sc


def run_scenario(sc):
    s = clirun.Scenario(sc["project"])
    try:
        inv = sc["invocations"][0]
        dump0 = None
        if sc.get("warmup"):
            r0 = s.invoke(sc["warmup"])
            dump0 = r0["dump"]
        r = s.invoke(inv)
        hit = bool(r["cache_hit"] and dump0 is not None)
        req = s.model_request(inv, cache_args=sc["warmup"]["args"] if hit else None)
        return {"inv": inv, "rc": r["rc"], "spawns": r["spawns"], "dump": dump0 if hit else r["dump"], "cache_hit": hit, "req": req,
                "stderr": r["stderr"][-300:], "root": s.root}
    finally:
        s.close()


def worker(scs):
    res = [run_scenario(sc) for sc in scs]
    ans = projrun.run_model_batch([r["req"] for r in res])
    for r, a in zip(res, ans):
        r["model"] = a
        del r["req"]
    return list(zip(scs, res))


def selected(args, b, a):
    return (args.get("builders") is None or b in args["builders"]) and (args.get("apps") is None or a in args["apps"])


def judge(chk, sc, step):
    inv, rc, sp, m = step["inv"], step["rc"], step["spawns"], step["model"]
    chk.evaluations += 1
    fl = inv.get("flags", {})
    t = inv["task"]
    chk.count("served-from-wider-cache" if step.get("cache_hit") else "generated")
    nl = [l for l in sp if l.startswith("N:")]
    sl = [l for l in sp if l.startswith("S:")]
    nt = False
    # a generation that fails (one build reports an error) may still have dumped the builds configured before it, in parallel:
    # nothing is spawned then, and the task oracles below do not apply
    gen_failed = rc == 1 and not sp and re.search(r'laze: error: builder "[^"]*": binary "[^"]*":|would be produced by more than one build statement', step.get("stderr") or "") is not None
    if gen_failed:
        chk.count("generation-failed")
        if m is not None and "ok" in m:
            chk.fail_disagree(f"{inv}: generation fails ({step['stderr'][-120:]!r}) but the model runs {json.dumps(m)[:120]}", {"scenario": sc, "step": step})
        return
    if rc in (0, 1) and step["dump"]:
        blds = [b for b in step["dump"] if b["decision"] == "built" and selected(inv["args"], b["builder"], b["app"])]
        defining = [b for b in blds if any(x[0] == t for x in b["tasks"])]
        runnable = []
        for b in defining:
            tk = [x for x in b["tasks"] if x[0] == t][0]
            if tk[1] == "ok":
                # model-independent recheck of availability from the dumped environment and module list
                runnable.append((b, tk[2]))
        for b in blds:
            have_vars = {kv[0] for kv in b["global_flat"]} | {"out"}
            have_mods = {x["name"] for x in b["modules"]}
            for x in b["tasks"]:
                if x[0] != t:
                    continue
                if x[1] == "ok":
                    mv = [v for v in (x[2].get("required_vars") or []) if v not in have_vars]
                    mm = [mo for mo in (x[2].get("required_modules") or []) if mo not in have_mods]
                    if mv or mm:
                        chk.fail_oracle("task:runnable-without-requirements", f"task {t} of {b['builder']}/{b['app']} is offered although required {mv + mm} are missing",
                                        {"scenario": sc})
                else:
                    what = x[2]
                    if what.startswith("required variable `") and what.split("`")[1] in have_vars:
                        chk.fail_oracle("task:refused-although-var-set", f"{b['builder']}/{b['app']}: {what}", {"scenario": sc})
                    if what.startswith("required module `") and what.split("`")[1] in have_mods:
                        chk.fail_oracle("task:refused-although-module-selected", f"{b['builder']}/{b['app']}: {what}", {"scenario": sc})
        avail = {len(defining), len(runnable)}
        if len(set(json.dumps(x[2], sort_keys=True) if x[1] == "ok" else x[2] for b in defining for x in b["tasks"] if x[0] == t)) >= 2:
            nt = True
        chk.count(f"defining:{min(len(defining), 3)}/runnable:{min(len(runnable), 3)}")
        if not runnable:
            if rc == 0 or sp:
                chk.fail_oracle("task:none-runnable-not-failing", f"{inv}: no runnable match but rc {rc}, spawns {sp}", {"scenario": sc})
        elif len(runnable) > 1 and not fl.get("multiple"):
            if rc == 0 or sp:
                chk.fail_oracle("task:several-runnable-not-refused", f"{inv}: {len(runnable)} runnable matches without -m but rc {rc}, spawns {sp}", {"scenario": sc})
        elif len(defining) > 1 and not fl.get("multiple"):
            chk.count("strict-refusal(defined-but-not-runnable counts)")
        else:
            need_build = [b["outfile"] for b, tk in runnable if tk["build"]]
            if need_build and not fl.get("generate_only"):
                if not nl or sp.index(nl[0]) != 0:
                    chk.fail_oracle("task:build-first", f"{inv}: app must be built before the task, spawns {sp}", {"scenario": sc})
                else:
                    targets = [x for x in nl[0][2:].split(" ")[2:] if not x.startswith("-") and not x.isdigit()]
                    if sorted(targets) != sorted(need_build):
                        chk.fail_oracle("task:build-targets", f"{inv}: ninja targets {targets}, runnable matches need {need_build}", {"scenario": sc})
            elif nl:
                chk.fail_oracle("task:unwanted-build", f"{inv}: build: false / -G but ninja ran: {nl}", {"scenario": sc})
            ninja_failed = bool(nl) and inv.get("ninja_rc", 0) != 0
            if ninja_failed and sl:
                chk.fail_oracle("task:runs-after-failed-build", f"{inv}: ninja failed but tasks ran", {"scenario": sc})
            fails = [i for i, l in enumerate(sl) if "FAILME" in l or "KILLME" in l]
            k = fl.get("keep_going", 1)
            if k > 0 and len(fails) >= k and fails[k - 1] != len(sl) - 1:
                chk.fail_oracle("task:keep-going", f"{inv}: execution continued after {k} failure(s): {sl}", {"scenario": sc})
            want_fail = ninja_failed or bool(fails)
            if (rc != 0) != want_fail:
                chk.fail_oracle("task:exit-status", f"{inv}: rc {rc}, ninja failed={ninja_failed}, failing task commands={len(fails)}", {"scenario": sc})
    # ---- correspondence
    chk.disagreements_checked += 1
    if m is None or "ok" not in m:
        if rc == 0:
            chk.fail_disagree(f"impl rc 0, model {json.dumps(m)[:200]}", {"scenario": sc, "step": step})
    else:
        ms = clirun.model_spawn_lines(m, step["root"])
        if [clirun.norm_spawn(l) for l in sp] != ms or rc != m["ok"]["rc"]:
            chk.fail_disagree(f"{inv}: impl rc {rc} spawns {sp} / model rc {m['ok']['rc']} spawns {ms}", {"scenario": sc, "step": step})
    if nt:
        chk.nontrivial.add(projcheck.phash(sc))
        if len(chk.samples) < 2:
            chk.samples.append({"invocation": inv, "spawns": sp, "rc": rc})


def run(chk):
    n = 900 if chk.tier == "quick" else 6000
    chk.rule = ("projects with tasks on contexts and modules (required_vars/required_modules/build:false/export/workdir, failing commands) x one "
                "`laze build <task>` invocation (selection, -m, -k N, -G, task args, ninja exit code) against the real CLI with stand-in ninja and "
                "sh that log cwd/exports/argv; oracle from the dumped task availability: none runnable => failure, several runnable without -m => "
                "refusal, build first with exactly the runnable matches' outputs, keep-going cut-off, exit status; model compared on spawn list + "
                "exit status; non-trivial = >=2 selected builds define the task with different availability/content; distinct by scenario hash")
    scs = [gen_scenario(chk.seed, i) for i in range(n)] + [directed_scenario(chk.seed, i) for i in range(n // 4)]
    for sc, step in common.parallel_map(worker, scs):
        if sc.get("directed"):
            chk.count("directed:" + ("killed" if "KILLME" in json.dumps(sc["project"]) else "failing" if "FAILME" in json.dumps(sc["project"]) else "plain"))
        judge(chk, sc, step)
    chk.assumptions = ["process spawning, signals (ignore_ctrl_c) are not modelled; sh and ninja are stand-ins found through PATH"]
    return chk.finish()


def replay(chk, path):
    r0 = json.load(open(path))
    sc = r0["case"]["scenario"]
    (sc, step), = worker([sc])
    print(step["inv"], "rc", step["rc"], step["spawns"], "| model", (step["model"] or {}).get("ok"))
    judge(chk, sc, step)
    chk.note_case({"scenario": sc["invocations"]}, True)
    return chk.finish()
