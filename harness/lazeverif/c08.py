"""C08 — a cache hit is indistinguishable from regenerating."""
import copy, hashlib, json, os, random, shutil
from . import common, projgen, projcheck, projrun, clirun, ninjaparse

PROF = projgen.profile(n_ctx=(1, 2), n_builders=(2, 2), n_mods=(2, 4), n_apps=(2, 2), p_subdir=0.8, p_include=0.3, p_tasks=0.2,
                       p_custom_build=0.0, p_download=0.0, p_cli_builders=0.0, p_cli_apps=0.0, p_cli_select=0.0, p_cli_disable=0.0,
                       p_cli_define=0.0, p_hard_missing=0.0, p_cycle=0.0, p_app_elsewhere=0.0, p_blockallow=0.05, p_varopts=0.05, p_app_dup=0.3)
POINTS = ["after_cache_check", "after_parse", "after_stat", "after_cache_remove", "after_ninja_create", "after_header",
          "after_configure", "after_entries", "after_flush", "after_cache_write"]
LAZE2 = os.path.join(common.BUILD, "laze-other-binary")


def other_binary():
    global LAZE2
    if not os.path.exists(LAZE2) or os.path.getmtime(LAZE2) < os.path.getmtime(common.LAZE):
        try:
            tmp = LAZE2 + f".{os.getpid()}"
            shutil.copyfile(common.LAZE, tmp)
            with open(tmp, "ab") as f:
                f.write(b"\0verif")
            os.chmod(tmp, 0o755)
            os.replace(tmp, LAZE2)          # atomic: parallel workers never see (or execute) a half-written copy
        except OSError:
            os.makedirs(projrun.SCRATCH, exist_ok=True)
            LAZE2 = os.path.join(projrun.SCRATCH, "laze-other-binary")
            shutil.copyfile(common.LAZE, LAZE2)
            with open(LAZE2, "ab") as f:
                f.write(b"\0verif")
            os.chmod(LAZE2, 0o755)
    return LAZE2


def arg_pool(p):
    builders = [b["name"] for b in p["files"]["laze-project.yml"][0]["builders"]]
    apps = sorted({m["name"] for kind, m, path in projcheck.yaml_modules(p) if kind == "apps"})
    mods = sorted({m["name"] for kind, m, path in projcheck.yaml_modules(p) if kind == "modules"})
    pool = [{}, {}, {"apps": apps[:1]}, {"builders": builders[:1]}, {"builders": builders[:1], "apps": apps[:1]},
            {"apps": apps}, {"define": ["X=1", "OPT=2", "LIBS+=3"]}, {"define": ["X=1"]}, {"partition": "count:1/2"},
            {"builders": ["nosuch"]}, {"apps": ["nosuchapp"]}]
    if mods:
        pool += [{"select": [mods[0]]}, {"disable": [mods[-1]]}]
    # local mode: the directories that define an app, plus one that defines none
    appdirs = sorted({os.path.dirname(path) for kind, m, path in projcheck.yaml_modules(p) if kind == "apps"})
    alldirs = sorted({os.path.dirname(f) for f in p["files"]})
    for d in appdirs[:2] + [x for x in alldirs if x not in appdirs][:1]:
        pool.append({"local": d})
    if appdirs:
        pool.append({"local": appdirs[-1], "define": ["X=1"]})
    # local mode with an explicit app list: an app of that directory (served from the cache of a wider local run: the name may also be
    # defined in another directory, for another context), and an app of ANOTHER directory (refused cold and from the cache alike)
    here = {d: sorted({m["name"] for kind, m, path in projcheck.yaml_modules(p) if kind == "apps" and os.path.dirname(path) == d}) for d in appdirs}
    for d in appdirs[:2]:
        pool.append({"local": d, "apps": here[d][:1]})
        other = [a for a in apps if a not in here[d]]
        if other:
            pool.append({"local": d, "apps": other[:1]})
    return pool


def dup_app_elsewhere(p, rng):
    """the name of an app defined a second time, in another directory and for another context (a builder); its own bindir keeps the
    two output files apart"""
    apps = [(m, path) for kind, m, path in projcheck.yaml_modules(p) if kind == "apps"]
    builders = [b["name"] for b in p["files"]["laze-project.yml"][0]["builders"]]
    if not apps or not builders:
        return
    a, apath = rng.choice(apps)
    others = [path for path in p["files"] if os.path.dirname(path) != os.path.dirname(apath) and path != "laze-project.yml"]
    if not others or a.get("context", "default") in builders:
        return
    b = {"name": a["name"], "context": rng.choice(builders), "sources": [a["name"] + "_second.c"],
         "env": {"global": {"bindir": "${build-dir}/out2/${builder}/${app}"}}}
    p["files"][rng.choice(sorted(others))][0].setdefault("apps", []).append(b)


def gen_history(seed, i, maxlen):
    rng = random.Random(seed * 9176 + i)
    p = projgen.gen_project(seed + 800, i, PROF)
    p["args"] = {}
    if rng.random() < 0.15:
        dup_app_elsewhere(p, rng)
    pool = arg_pool(p)
    files = list(p["files"].keys())
    evs = [{"e": "run", "args": rng.choice(pool[:6])}]
    for _ in range(rng.randint(1, maxlen - 1)):
        r = rng.random()
        if r < 0.07:
            # a run with the cache disabled (--info-export): rewrites the ninja file, must not leave an older cache behind
            evs.append({"e": "run", "args": rng.choice(pool[:9]), "nocache": True})
        elif r < 0.35:
            evs.append({"e": "run", "args": rng.choice(pool)})
        elif r < 0.55:
            evs.append({"e": "run", "args": rng.choice(pool[:9]), "stop": rng.choice(POINTS)})
        elif r < 0.75:
            evs.append({"e": "edit", "f": rng.choice(files)})
        elif r < 0.85:
            evs.append({"e": "touch", "f": rng.choice(files)})
        elif r < 0.93:
            evs.append({"e": "swap"})
        else:
            evs.append({"e": "run", "args": rng.choice(pool[:6]), "stop": "after_stat", "edit_during": rng.choice(files)})
    dirs_of = {}
    for kind, m, path in projcheck.yaml_modules(p):
        if kind == "apps":
            dirs_of.setdefault(m["name"], set()).add(os.path.dirname(path))
    twice = sorted(n for n, ds in dirs_of.items() if len(ds) >= 2)
    if twice and rng.random() < 0.6:
        # an app name defined in two directories (two contexts): a wide local run in one of them, then that name alone
        n = rng.choice(twice)
        d = rng.choice(sorted(dirs_of[n]))
        evs.append({"e": "run", "args": {"local": d}})
        return {"project": p, "events": evs, "final": {"local": d, "apps": [n]}}
    listed = [f for f in files if f != "laze-project.yml"]
    if listed and rng.random() < 0.2:
        # a listed lazefile that is missing during one run (refused: nothing may be left behind that vouches for the tree) and back for
        # the next one
        f = rng.choice(listed)
        a = rng.choice(pool[:3])
        if rng.random() < 0.5:
            # ... or is an empty placeholder (no document / a comment / a bare `---`) during that run: still a file the result depends on
            evs += [{"e": "blank", "f": f, "text": rng.choice(["", "# placeholder\n", "---\n", "\n\n"])}, {"e": "run", "args": a}, {"e": "restore", "f": f}]
        else:
            evs += [{"e": "remove", "f": f}, {"e": "run", "args": a}, {"e": "restore", "f": f}]
        return {"project": p, "events": evs, "final": a}
    filedirs = sorted({os.path.dirname(f) for f in p["files"]})
    below = sorted((d, n) for n, ds in dirs_of.items() for dd in ds for d in filedirs if d and dd.startswith(d + "/"))
    if below and rng.random() < 0.5:
        # an app defined BELOW the start directory is not an app of the start directory: refused cold, and after a wide run there
        d, n = rng.choice(below)
        evs.append({"e": "run", "args": {"local": d}})
        return {"project": p, "events": evs, "final": {"local": d, "apps": [n]}}
    if rng.random() < 0.35:
        # a history that moves between start directories (local mode shares one cache file for all of them)
        loc = [a for a in pool if "local" in a]
        evs += [{"e": "run", "args": rng.choice(loc)} for _ in range(rng.randint(1, 2))]
        final = rng.choice(loc)
        return {"project": p, "events": evs, "final": final}
    final = rng.choice(pool[:9] + [evs[0]["args"]] * 4)
    return {"project": p, "events": evs, "final": final}


def gen_nearmiss(seed, i):
    """two command lines that differ in one component of the cache key in a way that is easy to lose: `=` vs `+=` of one --define,
    the order of two --select entries, `?m` vs `m`, a partition vs none, a repeated --define in two orders, a sub-/superset of builders"""
    rng = random.Random(seed * 5227 + i)
    p = projgen.gen_project(seed + 860, i, PROF)
    p["args"] = {}
    builders = [b["name"] for b in p["files"]["laze-project.yml"][0]["builders"]]
    mods = sorted({m["name"] for kind, m, path in projcheck.yaml_modules(p) if kind == "modules"}) or ["m0"]
    apps = sorted({m["name"] for kind, m, path in projcheck.yaml_modules(p) if kind == "apps"}) or ["a0"]
    m0, m1 = mods[0], mods[-1]
    v = rng.choice(["LIBS", "CFLAGS", "X"])
    pairs = [({"define": [v + "=zz"]}, {"define": [v + "+=zz"]}),
             ({"define": ["X=1", "X=2"]}, {"define": ["X=2", "X=1"]}),
             ({"define": [v + "=a"]}, {"define": [v + "=a", v + "+=a"]}),
             ({"select": ["?" + m0, "?" + m1]}, {"select": ["?" + m1, "?" + m0]}),
             ({"select": ["?" + m0]}, {"select": [m0]}),
             ({"disable": [m0]}, {"select": ["?" + m0]}),
             # the same names in other roles: selected vs disabled, split differently between the two lists
             ({"select": [m0]}, {"disable": [m0]}),
             ({"select": ["?" + m0], "disable": [m1]}, {"select": ["?" + m0, "?" + m1]}),
             ({"define": [v + "+=a", v + "+=b"]}, {"define": [v + "+=a b"]}),
             ({"define": [v + "+=a b"]}, {"define": [v + "=a b"]}),
             ({"builders": builders[:1]}, {"builders": builders[:1] + builders[1:2]}),
             ({"apps": apps[:1]}, {"apps": apps}),
             ({}, {"partition": "count:1/2"}), ({"partition": "count:1/2"}, {"partition": "count:2/2"}), ({"partition": "count:1/2"}, {"partition": "hash:1/2"}),
             ({"builders": builders[:1]}, {"builders": builders}),
             # a partition is a slice of the tuple sequence *after* selection: a narrower selection re-slices
             ({"partition": "count:1/2"}, {"partition": "count:1/2", "apps": apps[-1:]}),
             ({"partition": "count:2/2"}, {"partition": "count:2/2", "builders": builders[-1:]}),
             ({"partition": "count:1/2", "builders": builders}, {"partition": "count:1/2", "builders": builders[-1:], "apps": apps[-1:]}),
             # the builders of a partitioned run in another order: the tuple sequence (builders in the order given x apps) is sliced
             # differently (found in the unchanged code by a round-6 sub-agent; `partitionOk` compared the selections as sets)
             ({"partition": "count:1/2", "builders": builders}, {"partition": "count:1/2", "builders": builders[::-1]}),
             ({"partition": "count:2/3", "builders": builders, "apps": apps}, {"partition": "count:2/3", "builders": builders[::-1], "apps": apps[::-1]})]
    a, b = pairs[i % len(pairs)]
    if rng.random() < 0.5:
        a, b = b, a
    evs = [{"e": "run", "args": a}, {"e": "run", "args": b}]
    if rng.random() < 0.3:
        evs.append({"e": "run", "args": a})
    return {"project": p, "events": evs, "final": rng.choice([a, b])}


def define_key(defs):
    """the --define component of the cache key: the assignments folded in order into one env (`V=x` replaces, `V+=x` appends to a
    list and replaces anything else), listed by variable name — what `cli_env_hash` hashes"""
    env = {}
    for d in defs or []:
        i = d.find("=")
        if i < 0:
            env[d] = ["?", d]
            continue
        if i > 0 and d[i - 1] == "+":
            k, v = d[:i - 1], d[i + 1:]
            if isinstance(env.get(k), list) and env[k][0] == "l":
                env[k] = ["l", env[k][1] + [v]]
            else:
                env[k] = ["l", [v]]
        else:
            env[d[:i]] = ["s", d[i + 1:]]
    return [json.dumps([k, env[k]]) for k in sorted(env)]


def key_of(args, uuid, configured=None):
    k = {"mode": "global" if args.get("local") is None else "local:" + os.path.normpath(args["local"] or "."), "builders": args.get("builders"), "apps": args.get("apps"), "select": args.get("select"),
         "disable": args.get("disable"), "define": define_key(args.get("define")), "partition": args.get("partition"), "uuid": uuid}
    if configured is not None:
        cb, ca, where = configured
        if args.get("local") is not None:
            ca = {a for a in ca if os.path.normpath(where[a] or ".") == os.path.normpath(args["local"] or ".")}
        k["names_known"] = all(b in cb for b in (args.get("builders") or [])) and all(a in ca for a in (args.get("apps") or []))
    return k


def probe(project):
    """unrestricted cold generation: is the project accepted? and the builder / app names it defines"""
    r = projrun.run_impl(dict(project, args={}))
    if projrun.impl_status(r) != "ok":
        return None
    builders = {b["name"] for docs in project["files"].values() for d in docs for b in (d.get("builders") or [])}
    apps = {m["name"] for kind, m, path in projcheck.yaml_modules(project) if kind == "apps"}
    where = {m["name"]: os.path.dirname(path) for kind, m, path in projcheck.yaml_modules(project) if kind == "apps"}
    return (builders, apps, where)


class Hist:
    def __init__(self, sc):
        self.sc = sc
        self.s = clirun.Scenario(sc["project"])
        self.project = copy.deepcopy(sc["project"])
        self.counter = 0
        self.uuid = 1
        self.complete = set()
        self.model_events = []
        self.obs = []

    def binary(self):
        return common.LAZE if self.uuid == 1 else other_binary()

    fam = "global"      # which pair of files (cache, ninja) the current run uses: "global" | "local"

    def cache_path(self):
        return os.path.join(self.s.d, "build", f"laze-cache-{self.fam}.bincode")

    def ninja_path(self):
        return os.path.join(self.s.d, "build", f"build-{self.fam}.ninja")

    def edit(self, f, touch=False):
        self.counter += 1
        path = os.path.join(self.s.d, f)
        if not touch:
            docs = self.project["files"][f]
            # a visible change: a new context env variable used by LINK/CC via ${X} if possible, else a marker doc meta
            docs[0].setdefault("contexts", []) if f == "laze-project.yml" else None
            tgt = None
            for d in docs:
                for key in ("modules", "apps"):
                    for m in d.get(key) or []:
                        tgt = tgt or m
            if tgt is not None:
                tgt.setdefault("env", {}).setdefault("local", {})["CFLAGS"] = f"-DEDIT{self.counter}"
            elif f == "laze-project.yml":
                projcheck.default_context(self.project).setdefault("env", {})["X"] = f"edit{self.counter}"
            else:
                docs[0]["meta"] = {"edit": self.counter}
            projrun.write_project(self.s.d, {f: docs})
        st = os.stat(path)
        os.utime(path, ns=(st.st_atime_ns, st.st_mtime_ns + self.counter * 2_000_000_000))

    def files(self):
        return list(self.project["files"].keys())

    def sha(self):
        p = self.ninja_path()
        return hashlib.sha256(open(p, "rb").read()).hexdigest() if os.path.exists(p) else None

    def ninja_class(self):
        h = self.sha()
        if h is None:
            return "absent"
        if open(self.ninja_path()).read() == "builddir = build\nbuild ALWAYS: phony\n":
            return "header-only"      # a complete file with no builds and a file cut after the header look the same
        return "complete" if h in self.complete else "short"

    def run(self, args, stop=None, edit_during=None, generate_only=True, ninja_rc=0, nocache=False):
        env = {}
        self.fam = "local" if args.get("local") is not None else "global"
        if stop and not edit_during:
            env["LAZE_VERIF_FAULT"] = f"{stop}=abort"
        if edit_during:
            # an edit placed exactly between parse and stat of a run (pause hook)
            tag = os.path.join(self.s.d, ".pause")
            for x in (tag + ".reached", tag + ".go"):
                if os.path.exists(x):
                    os.remove(x)
            env["LAZE_VERIF_FAULT"] = f"after_parse=pause:{tag}"
            import subprocess, time
            e = dict(os.environ)
            e.update(env)
            e["LAZE_VERIF_DUMP"] = os.path.join(self.s.d, ".dump.jsonl")
            cmd = ([self.binary(), "-C", self.s.d, "build", "-g", "-G"] if self.fam == "global" else
                   [self.binary(), "-C", os.path.join(self.s.d, args["local"]), "build", "-G"]) + projrun.cli_args(args)
            pr = subprocess.Popen(cmd, env=e, stdout=subprocess.PIPE, stderr=subprocess.PIPE)
            for _ in range(2000):
                if os.path.exists(tag + ".reached") or pr.poll() is not None:
                    break
                time.sleep(0.002)
            reached = os.path.exists(tag + ".reached")
            if reached:
                self.edit(edit_during)
            open(tag + ".go", "w").close()
            out, err = pr.communicate(timeout=240)
            # a run served from the cache never parses: the window is not reached and the edit does not take place
            r = {"rc": pr.returncode, "stdout": out.decode("utf-8", "replace"), "stderr": err.decode("utf-8", "replace"), "spawns": [],
                 "window_reached": reached}
            projrun.read_dump(self.s.d)
        else:
            inv = {"args": args, "flags": {"generate_only": generate_only}, "ninja_rc": ninja_rc}
            if nocache:
                inv["flags"]["info_export"] = ".info-export.json"
            self.s_binary = self.binary()
            r = self.invoke(inv, env)
        r["hit"] = "laze: reading cache took" in r["stdout"]
        if r["rc"] == 0 and not r["hit"] and (not stop or edit_during):
            self.complete.add(self.sha())
        elif stop and not r["hit"] and self.sha() is not None:
            # ground truth for "complete": what an uninterrupted run with these arguments writes for the tree as it is now
            ref = self.reference_sha(args)
            if ref is not None:
                self.complete.add(ref)
        return r

    def reference_sha(self, args):
        d2 = self.s.d + ".ref"
        shutil.rmtree(d2, ignore_errors=True)
        os.makedirs(d2)
        try:
            projrun.write_project(d2, self.project["files"])
            os.makedirs(os.path.join(d2, "wd"), exist_ok=True)
            r = projrun.run_laze(d2, args, binary=self.binary())
            projrun.read_dump(d2)
            nf = os.path.join(d2, "build", f"build-{self.fam}.ninja")
            if r["rc"] == 0 and os.path.exists(nf):
                return hashlib.sha256(open(nf, "rb").read()).hexdigest()
            return None
        finally:
            shutil.rmtree(d2, ignore_errors=True)

    def invoke(self, inv, env):
        old = common.LAZE
        try:
            common.LAZE = self.binary()
            return self.s.invoke(inv, extra_env=env)
        finally:
            common.LAZE = old

    def close(self):
        self.s.close()


def run_history(sc):
    conf = probe(sc["project"])
    if conf is None:
        return {"skipped": True}
    h = Hist(sc)
    out = {"obs": [], "model_events": [], "final": None, "window_edit": False}
    missing = set()
    try:
        for ev in sc["events"]:
            if ev["e"] in ("edit", "touch"):
                h.edit(ev["f"], touch=ev["e"] == "touch")
                out["model_events"].append({"e": "edit", "f": ev["f"]})
                out["obs"].append({"ok": "edit"})
            elif ev["e"] in ("remove", "restore", "blank"):
                # for the protocol model a file that disappears, is emptied or comes back is a file that changed
                if ev["e"] == "blank":
                    h.counter += 1
                    path = os.path.join(h.s.d, ev["f"])
                    st0 = os.stat(path)
                    with open(path, "w") as fh:
                        fh.write(ev["text"])
                    os.utime(path, ns=(st0.st_atime_ns, st0.st_mtime_ns + h.counter * 2_000_000_000))
                elif ev["e"] == "remove":
                    os.remove(os.path.join(h.s.d, ev["f"]))
                    missing.add(ev["f"])
                else:
                    h.edit(ev["f"], touch=False)
                    missing.discard(ev["f"])
                out["model_events"].append({"e": "edit", "f": ev["f"]})
                out["obs"].append({"ok": "edit"})
            elif ev["e"] == "swap":
                h.uuid = 3 - h.uuid
                out["model_events"].append(None)
                out["obs"].append(None)
            else:
                args = ev["args"]
                failing = args.get("builders") == ["nosuch"] or args.get("apps") == ["nosuchapp"]
                r = h.run(args, stop=ev.get("stop"), edit_during=ev.get("edit_during"), nocache=bool(ev.get("nocache")))
                if not ev.get("stop") and r["rc"] != 0 and not r["hit"]:
                    failing = True        # generation itself reports an error: an external event for the protocol model
                if missing and r["rc"] != 0 and not r["hit"] and "No such file" in r["stderr"]:
                    # LOADING failed (a listed lazefile is missing): the run ends while parsing, before anything in the build
                    # directory is touched — for the protocol model a run that stops right after the cache check
                    out["model_events"].append({"e": "run", "key": key_of(args, h.uuid, conf), "files": h.files(), "stop": "after_cache_check",
                                                "failing": False, "fam": h.fam})
                    out["obs"].append({"fam": h.fam, "report": "stopped", "ninja": h.ninja_class(),
                                       "cache": "record" if os.path.exists(h.cache_path()) else "absent", "rc": r["rc"], "stderr": r["stderr"][-200:]})
                    continue
                if ev.get("edit_during") and r.get("window_reached"):
                    out["window_edit"] = True
                    # model: run stopped after parse... the edit lands inside the window; model it as kill-free: parse, edit, rest
                    out["model_events"].append({"e": "run", "key": key_of(args, h.uuid, conf), "files": h.files(), "stop": "never", "failing": failing,
                                                "window_edit": ev["edit_during"], "fam": h.fam})
                else:
                    out["model_events"].append({"e": "run", "key": key_of(args, h.uuid, conf), "files": h.files(),
                                                "stop": ev.get("stop") or "never", "failing": failing, "fam": h.fam,
                                                "nocache": bool(ev.get("nocache")) and not failing})
                rep = "hit" if r["hit"] else ("done" if r["rc"] == 0 else "stopped")
                out["obs"].append({"fam": h.fam, "report": rep, "ninja": h.ninja_class(), "cache": "record" if os.path.exists(h.cache_path()) else "absent",
                                   "rc": r["rc"], "stderr": r["stderr"][-200:]})
        # final oracle: run R with the final arguments, then the same with an empty build directory
        fa = sc["final"]
        R = h.run(fa, generate_only=False, ninja_rc=0)
        ninja_R = open(h.ninja_path()).read() if os.path.exists(h.ninja_path()) else None
        shutil.rmtree(os.path.join(h.s.d, "build"), ignore_errors=True)
        C = h.run(fa, generate_only=False, ninja_rc=0)
        ninja_C = open(h.ninja_path()).read() if os.path.exists(h.ninja_path()) else None
        out["final"] = {"args": fa, "hit": R["hit"], "rc_R": R["rc"], "rc_C": C["rc"], "spawns_R": R["spawns"], "spawns_C": C["spawns"],
                        "ninja_R": ninja_R, "ninja_C": ninja_C, "dump_C": C["dump"], "stderr_R": R["stderr"][-300:], "stderr_C": C["stderr"][-300:]}
        # liveness: the same command line again on the unchanged tree is served from the cache
        if C["rc"] == 0:
            again = h.run(fa, generate_only=True)
            out["final"]["again_hit"] = again["hit"]
    finally:
        h.close()
    return out


def worker(scs):
    res = [run_history(sc) for sc in scs]
    # the global and the local mode keep separate (cache, ninja) pairs over the same tree: one model instance per pair
    reqs, slots = [], []
    for r in res:
        evs = [e for e in r.get("model_events", []) if e is not None]
        for fam in ("global", "local"):
            idx, mine = [], []
            for i, e in enumerate(evs):
                if e["e"] == "edit" or e.get("fam") == fam:
                    idx.append(i); mine.append(e)
                elif e.get("window_edit"):
                    # a run of the other pair that had a file edited under it: for this pair only the edit happened
                    idx.append(i); mine.append({"e": "edit", "f": e["window_edit"]})
            reqs.append({"op": "cache", "events": mine})
            slots.append((r, fam, idx, evs))
    ans = common.model(reqs)
    for (r, fam, idx, evs), a in zip(slots, ans):
        merged = r.setdefault("model", {"ok": [None] * len(evs)})
        if merged.get("ok") is None or a.get("ok") is None or len(a["ok"]) != len(idx):
            r["model"] = {"error": a}
            continue
        for i, o in zip(idx, a["ok"]):
            if evs[i].get("fam", "global") == fam:      # edits are answered by the global instance
                merged["ok"][i] = o
    return list(zip(scs, res))


def judge(chk, sc, res):
    if res.get("skipped"):
        chk.count("skipped:project-not-accepted")
        return
    chk.evaluations += 1
    f = res["final"]
    nt = False
    if f is not None:
        chk.count("final:" + ("hit" if f["hit"] else "miss"))
        if f["hit"]:
            nt = len(sc["events"]) >= 2
            sig = None
            if (f["rc_R"] != 0) != (f["rc_C"] != 0):
                unknown = "nosuch" in json.dumps(f["args"])
                sig = "cache:hit-status-differs" + (":unknown-builder-or-app" if unknown else "")
                what = f"served from the cache with exit {f['rc_R']}, cold run exits {f['rc_C']} ({f['stderr_C'][-120:]!r})"
            elif f["rc_C"] == 0:
                if sorted(f["spawns_R"]) != sorted(f["spawns_C"]):
                    sig, what = "cache:hit-targets-differ", f"ninja invocation after a hit {f['spawns_R']} vs cold {f['spawns_C']}"
                else:
                    try:
                        pR, pC = ninjaparse.parse(f["ninja_R"] or ""), ninjaparse.parse(f["ninja_C"] or "")
                        for b in f["dump_C"]:
                            if b["decision"] != "built":
                                continue
                            if ninjaparse.ambiguous(pR, b["outfile"]):
                                chk.count("skipped:outfile-with-several-producers")     # C06 known finding (outfile collision): the wider file is not loadable
                                continue
                            if sorted(ninjaparse.closure(pR, b["outfile"])) != sorted(ninjaparse.closure(pC, b["outfile"])):
                                window = any(e.get("edit_during") for e in sc["events"])
                                stopped = any(e.get("stop") for e in sc["events"])
                                sig = "cache:hit-stale-ninja" + (":edit-between-parse-and-stat" if window else (":after-interrupted-run" if stopped else ""))
                                what = f"cache hit but the statements of {b['builder']}/{b['app']} differ from a cold run"
                                break
                    except ninjaparse.ParseError as e:
                        sig, what = "cache:hit-unparsable-ninja:after-interrupted-run", f"cache hit on a truncated ninja file ({e})"
            if sig:
                chk.fail_oracle(sig, what, {"scenario": {"events": sc["events"], "final": sc["final"], "project": sc["project"]}})
        if f.get("again_hit") is False:
            multi = len(f["args"].get("define") or []) >= 2
            chk.fail_oracle("cache:identical-rerun-missed" + (":several-defines" if multi else ""),
                            f"an identical command line {f['args']} on an unchanged tree was not served from the cache",
                            {"scenario": {"events": sc["events"], "final": sc["final"], "project": sc["project"]}})
    # never accepted after a change: a run right after an edit/touch/swap/different key must not hit
    dirty, binary_of, uuid, wrote = {"global": False, "local": False}, {"global": 1, "local": 1}, 1, {"global": None, "local": None}
    case = {"scenario": {"events": sc["events"], "final": sc["final"], "project": sc["project"]}}
    for ev, ob in zip(sc["events"], res["obs"]):
        if ev["e"] in ("edit", "touch", "remove", "restore", "blank"):
            dirty = {"global": True, "local": True}
        elif ev["e"] == "swap":
            uuid = 3 - uuid
        elif ob is not None:
            fam = ob.get("fam", "global")
            if ob["report"] == "hit" and (dirty[fam] or binary_of[fam] != uuid):
                chk.fail_oracle("cache:accepted-after-change", f"cache hit by {ev} although a lazefile or the binary changed since the cache was written", case)
            if ob["report"] == "hit" and wrote[fam] is not None:
                # the components that must be equal: --select, --disable, --define (as a set), --partition, start directory
                a, w = ev["args"], wrote[fam]
                for comp in ("select", "disable", "define", "partition", "local"):
                    va, vw = a.get(comp), w.get(comp)
                    if comp == "define":
                        va, vw = define_key(va), define_key(vw)
                    if comp == "local" and va is not None and vw is not None:
                        va, vw = os.path.normpath(va or "."), os.path.normpath(vw or ".")
                    if va != vw:
                        chk.fail_oracle("cache:accepted-after-key-change:" + comp,
                                        f"cache hit by {a} although it was written by a run with {comp}={w.get(comp)!r}", case)
                # with a partition the request is a slice of the sequence (builders in the order GIVEN) x (apps in definition order):
                # the builders must be the same list in the same order, the apps the same set
                if a.get("partition") and (a.get("builders") != w.get("builders") or sorted(a.get("apps") or ["*"]) != sorted(w.get("apps") or ["*"])):
                    chk.fail_oracle("cache:accepted-after-key-change:partitioned-selection",
                                    f"cache hit by {a} although it was written by a partitioned run with builders={w.get('builders')!r} apps={w.get('apps')!r}: "
                                    "the slice is taken from another tuple sequence", case)
            if ob["report"] == "done" or (ob["report"] == "stopped" and ev.get("stop") == "after_cache_write"):
                dirty[fam], binary_of[fam], wrote[fam] = False, uuid, ev["args"]       # a new cache was written for the tree/binary as they are now
            if ev.get("edit_during") and ob["report"] != "hit":
                dirty = {"global": True, "local": True}        # a file changed under the run: nothing written by it may vouch for the tree
    # correspondence with the protocol model
    if True:
        chk.disagreements_checked += 1
        m = res["model"]
        mobs = (m or {}).get("ok")
        iobs = [o for o, me in zip(res["obs"], res["model_events"]) if me is not None]
        if mobs is None or len(mobs) != len(iobs):
            chk.fail_disagree(f"model answer {json.dumps(m)[:200]}", {"scenario": sc["events"]})
        else:
            for k, (a, b) in enumerate(zip(iobs, mobs)):
                if "report" not in a:
                    continue
                bn = b["ninja"] if isinstance(b["ninja"], str) else "complete"
                # a run that dies before writing anything reports "stopped" in both; exit status of failing runs is 1
                if a["ninja"] == "header-only":
                    bn = "header-only" if bn in ("short", "complete") else bn
                if (a["report"], a["cache"], a["ninja"]) != (b["report"], b["cache"], bn):
                    chk.fail_disagree(f"event {k}: impl {(a['report'], a['cache'], a['ninja'])} model {(b['report'], b['cache'], bn)} ({a.get('stderr', '')[-100:]!r})",
                                      {"scenario": {"events": sc["events"], "project": sc["project"]}, "impl": iobs, "model": mobs})
                    break
    if nt:
        chk.nontrivial.add(projcheck.phash({"e": sc["events"], "f": sc["final"], "p": sc["project"]}))
        if len(chk.samples) < 2:
            chk.samples.append({"events": sc["events"], "final": sc["final"], "observed": res["obs"]})


def import_edit_case(job):
    """imports are not part of the model; implementation-side oracle only. A project with a local import (reached through the symlink
    build/imports/<name> or directly), which itself includes a second file: cold run, identical re-run (must be served from the cache),
    then an edit of the imported lazefile or of the file it includes (content and mtime), then the same command line again: it must not
    be served from the cache and must leave the ninja file a cold run on the edited tree writes."""
    seed, i = job
    rng = random.Random(seed * 7331 + i)
    symlink = rng.random() < 0.7
    which = rng.choice(["lib", "included", "defaults"])
    lib = rng.choice(["laze-lib.yml", "laze.yml"])
    named = {"name": "extlib"} if rng.random() < 0.4 else {}

    def project(level):
        return {"files": {
            "laze-project.yml": [{"contexts": [{"name": "default", "env": {"bindir": "${build-dir}/out/${builder}/${app}"},
                                                "rules": [{"name": "CC", "in": "c", "out": "o", "cmd": "cc ${CFLAGS} -c ${in} -o ${out}"},
                                                          {"name": "LINK", "in": "o", "cmd": "ld ${in} -o ${out}"}]}],
                                  "builders": [{"name": "b0"}, {"name": "b1"}],
                                  "imports": [dict({"path": "vendor/ext", "symlink": symlink}, **named)],
                                  "apps": [{"name": "a0", "sources": ["a0.c"], "depends": ["extmod"]}]}],
            f"vendor/ext/{lib}": [{"includes": ["flags.yml"],
                                   "defaults": {"module": {"env": {"local": {"CFLAGS": [f"-DDFLT_LEVEL={level if which == 'defaults' else 0}"]}}}},
                                   "modules": [{"name": "extmod", "sources": ["ext.c"], "depends": ["extflags"],
                                                "env": {"export": {"CFLAGS": [f"-DLIB_LEVEL={level if which == 'lib' else 0}"]}}}]}],
            "vendor/ext/flags.yml": [{"modules": [{"name": "extflags",
                                                   "env": {"export": {"CFLAGS": [f"-DFLAGS_LEVEL={level if which == 'included' else 0}"]}}}]}]},
            "args": {}}
    p0, p1 = project(1), project(2)
    s = clirun.Scenario(p0)
    out = {"symlink": symlink, "edited": which, "steps": []}
    try:
        inv = {"args": {}, "flags": {"generate_only": True}}
        for step in ("cold", "again"):
            r = s.invoke(inv)
            out["steps"].append((step, r["rc"], r["cache_hit"]))
        f = f"vendor/ext/{lib}" if which in ("lib", "defaults") else "vendor/ext/flags.yml"
        projrun.write_project(s.d, {f: p1["files"][f]})
        st = os.stat(os.path.join(s.d, f))
        os.utime(os.path.join(s.d, f), ns=(st.st_atime_ns, st.st_mtime_ns + 4_000_000_000))
        r = s.invoke(inv)
        out["steps"].append(("after-edit", r["rc"], r["cache_hit"]))
        out["ninja_after_edit"] = r["ninja"]
        out["stderr"] = r["stderr"][-300:]
    finally:
        s.close()
    s2 = clirun.Scenario(p1)
    try:
        r = s2.invoke({"args": {}, "flags": {"generate_only": True}})
        out["ninja_cold_edited"] = r["ninja"]
        out["cold_rc"] = r["rc"]
    finally:
        s2.close()
    return (job, out)


def import_worker(jobs):
    return [import_edit_case(j) for j in jobs]


def judge_import(chk, job, out, prefix="cache"):
    chk.evaluations += 1
    chk.count("import-edit:" + ("symlink" if out["symlink"] else "plain") + ":" + out["edited"])
    steps = {n: (rc, hit) for n, rc, hit in out["steps"]}
    case = {"import_case": list(job), "symlink": out["symlink"], "edited": out["edited"], "steps": out["steps"]}
    if steps.get("cold", (1, False))[0] != 0 or out.get("cold_rc") != 0:
        chk.fail_oracle(prefix + ":import-project-rejected", f"the import project is not accepted: {out.get('stderr')}", case)
        return
    if not steps["again"][1]:
        chk.fail_oracle(prefix + ":import-unchanged-not-served", "an unchanged project with a local import is not served from the cache on an identical re-run", case)
    if steps["after-edit"][1]:
        chk.fail_oracle(prefix + ":hit-after-edit:imported-file", f"a lazefile reached through a local import ({'symlinked' if out['symlink'] else 'plain'}; the "
                        f"{'file it includes' if out['edited'] == 'included' else 'imported file itself' + (': its defaults' if out['edited'] == 'defaults' else '')}) was edited, yet the next run is served from the cache", case)
    elif out.get("ninja_after_edit") != out.get("ninja_cold_edited"):
        chk.fail_oracle(prefix + ":stale-ninja-after-edit:imported-file", "after an edit of an imported lazefile the regenerated ninja file differs from a cold run on the edited tree", case)
    else:
        chk.nontrivial.add(f"import-{job[1]}")


def task_after_wide_case(job):
    """a task run for a narrow selection served from the cache of a wider generate-only run vs the same task run with an empty build
    directory: exit status and every spawned process (ninja argv, task commands with cwd and exports) must be the same"""
    from . import c16
    seed, i = job
    sc = c16.gen_scenario(seed + 4000, i)
    inv = sc["invocations"][0]
    wide = {"args": {k: v for k, v in inv["args"].items() if k in ("select", "disable", "define")}, "flags": {"generate_only": True}}
    out = {}
    for mode in ("warm", "cold"):
        s = clirun.Scenario(sc["project"])
        try:
            if mode == "warm":
                r0 = s.invoke(wide)
                out["wide_rc"] = r0["rc"]
            r = s.invoke(inv)
            out[mode] = {"rc": r["rc"], "spawns": [clirun.norm_spawn(l).replace(s.root, "<root>") for l in r["spawns"]], "hit": r["cache_hit"],
                         "stderr": r["stderr"][-200:]}
        finally:
            s.close()
    return (job, sc, out)


def unordered(spawns):
    """the property speaks of the builds, outputs and tasks of the requested builds, not of their order: a run served from a wider
    run's cache lists the builds in the wide run's (declaration) order, a cold `-b b0,b2,b1` in the order given. Targets of one ninja
    invocation and the processes of the run are compared as multisets."""
    out = []
    for l in spawns:
        if l.startswith("N:"):
            w = l.split(" ")
            # `N:-f <file> [flags...] targets...`: targets are the words that are paths of outputs (no leading `-`, not the value of -f/-j/-k)
            head, targets, skip = [], [], False
            for i, x in enumerate(w):
                if skip:
                    head.append(x); skip = False
                elif x in ("N:-f", "-f", "-j", "-k", "-t"):
                    head.append(x); skip = True
                elif x.startswith("-") or i == 0:
                    head.append(x)
                else:
                    targets.append(x)
            out.append(" ".join(head + sorted(targets)))
        else:
            out.append(l)
    return sorted(out)


def task_worker(jobs):
    return [task_after_wide_case(j) for j in jobs]


def run(chk):
    n, maxlen = (120, 5) if chk.tier == "quick" else (1500, 8)
    chk.rule = ("histories over {run(args), run killed at one of 10 fault points, failing run (unknown builder/app), edit / touch of a loaded "
                "lazefile, edit placed between parse and stat of a run, swap of the laze binary} of length <= 5 (quick) / 8 (thorough) on a "
                "2-builder x 2-app project with sub-directories, followed by a final run R and the same run with an empty build directory; oracle: "
                "if R is a hit then exit status, ninja invocation and every requested build's statements equal the cold run's; no hit right after a "
                "change; an identical re-run hits; per event, hit/miss, cache presence and ninja completeness are compared with the protocol model; "
                "non-trivial = the final run is a hit after >=1 earlier event besides the first run; distinct by scenario hash")
    scs = [c["scenario"] for c in common.load_corpus("C08") if "scenario" in c] + [gen_history(chk.seed, i, maxlen) for i in range(n)] + \
        [gen_nearmiss(chk.seed, i) for i in range(40 if chk.tier == "quick" else 800)]
    for sc, res in common.parallel_map(worker, scs):
        judge(chk, sc, res)
    for job, sc, out in common.parallel_map(task_worker, [(chk.seed, i) for i in range(60 if chk.tier == "quick" else 1200)]):
        chk.evaluations += 1
        w, c = out["warm"], out["cold"]
        chk.count("task-after-wide-run:" + ("hit" if w["hit"] else "miss"))
        if w["hit"] and (w["rc"] != c["rc"] or unordered(w["spawns"]) != unordered(c["spawns"])):
            chk.fail_oracle("cache:task-run-differs-from-cold", f"{sc['invocations'][0]}: served from a wider run's cache: rc {w['rc']} spawns {w['spawns'][:4]}; "
                            f"with an empty build directory: rc {c['rc']} spawns {c['spawns'][:4]}", {"task_case": list(job), "scenario": sc})
        elif w["hit"]:
            chk.nontrivial.add(f"task-{job[1]}")
    for job, out in common.parallel_map(import_worker, [(chk.seed, i) for i in range(10 if chk.tier == "quick" else 200)]):
        judge_import(chk, job, out)
    chk.assumptions = ["stamps are (len, mtime): every edit of the harness changes mtime", "kill = _exit at a hook point (unflushed buffers lost); power loss / fsync ordering not modelled",
                       "concurrent laze processes are not modelled; concurrent edits are (pause hook)"]
    return chk.finish()


def replay(chk, path):
    r0 = json.load(open(path))
    sc = r0["case"]["scenario"] if "case" in r0 else r0["scenario"]
    if "project" not in sc and "project" in r0.get("case", {}):
        sc["project"] = r0["case"]["project"]
    (sc, res), = worker([sc])
    for ev, ob in zip(sc["events"], res.get("obs", [])):
        print(ev, "->", ob)
    print("final", {k: v for k, v in (res.get("final") or {}).items() if not k.startswith("ninja") and k != "dump_C"})
    judge(chk, sc, res)
    chk.note_case({"events": sc["events"]}, True)
    return chk.finish()
