"""Strict parser for the subset of ninja syntax laze emits."""
import re


class ParseError(Exception):
    pass


def parse(text):
    """returns dict(header=[...], rules=[{name, vars, pos}], builds=[{outs, rule, inputs, order_only, vars, pos, text}])"""
    blocks = text.split("\n\n")
    res = {"header": [], "rules": [], "builds": []}
    pos = 0
    first = True
    for blk in blocks:
        if not blk.strip():
            continue
        lines = blk.split("\n")
        if first:
            # header lines: `builddir = X`, `build ALWAYS: phony`
            while lines and (lines[0].startswith("builddir = ") or lines[0] == "build ALWAYS: phony"):
                res["header"].append(lines.pop(0))
            first = False
            while lines and lines[0] == "":
                lines.pop(0)
            if not lines:
                continue
        pos += 1
        blk = "\n".join(lines)
        if lines[0].startswith("rule "):
            name = lines[0][5:]
            vs = {}
            for l in lines[1:]:
                m = re.match(r"  ([a-z_]+) = (.*)$", l)
                if not m:
                    raise ParseError(f"bad rule line {l!r}")
                vs[m.group(1)] = m.group(2)
            res["rules"].append({"name": name, "vars": vs, "pos": pos, "text": blk})
        elif lines[0].startswith("build"):
            # join `$`-continuations
            joined = []
            cur = None
            body_vars = {}
            i = 0
            head = lines[0]
            while head.endswith(" $"):
                i += 1
                if i >= len(lines):
                    raise ParseError("dangling continuation")
                head = head[:-2] + "\x00" + lines[i].strip()
            for l in lines[i + 1:]:
                m = re.match(r"  (\S+) = (.*)$", l)
                if not m:
                    raise ParseError(f"bad build var line {l!r}")
                body_vars[m.group(1)] = m.group(2)
            m = re.match(r"build(.*?):\x00(.*)$", head, re.S)
            if not m:
                raise ParseError(f"bad build head {head!r}")
            outs = [o for o in m.group(1).split(" ") if o]
            parts = m.group(2).split("\x00")
            rule = parts[0]
            inputs, oo, seen_bar = [], [], False
            for ptk in parts[1:]:
                if ptk == "|":
                    seen_bar = True
                elif seen_bar:
                    oo.append(ptk)
                else:
                    inputs.append(ptk)
            res["builds"].append({"outs": outs, "rule": rule, "inputs": inputs, "order_only": oo, "vars": body_vars,
                                  "pos": pos, "text": blk})
        else:
            raise ParseError(f"unknown block {lines[0]!r}")
    return res


class ByCanonicalPath(dict):
    """a dict keyed by paths as ninja compares them: `build/dl/./x/f` and `build/dl/x/f` are one file"""
    def __getitem__(self, k):
        return dict.__getitem__(self, canon(k))

    def __contains__(self, k):
        return dict.__contains__(self, canon(k))

    def get(self, k, default=None):
        return dict.get(self, canon(k), default)

    def setdefault(self, k, default=None):
        return dict.setdefault(self, canon(k), default)


def producers(pn):
    """output path -> list of build statements producing it"""
    out = ByCanonicalPath()
    for b in pn["builds"]:
        for o in b["outs"]:
            out.setdefault(o, []).append(b)
    return out


def ambiguous(pn, target, prod=None):
    """some path reachable from `target` is produced by several statements (the file is not loadable by ninja: C06 findings);
    the statements "of one build" are then not well defined"""
    prod = prod if prod is not None else producers(pn)
    seen, todo = set(), [target]
    while todo:
        t = canon(todo.pop())
        if t in seen:
            continue
        seen.add(t)
        ps = prod.get(t, [])
        if len(ps) > 1:
            return True
        for b in ps:
            todo += b["inputs"] + b["order_only"]
    return False


def closure(pn, target):
    """all statements (as texts, in file order) reachable from `target` through inputs and order-only deps, plus their rules"""
    prod = producers(pn)
    rules = {r["name"]: r for r in pn["rules"]}
    seen, todo, sts = set(), [target], []
    while todo:
        t = canon(todo.pop())
        if t in seen:
            continue
        seen.add(t)
        for b in prod.get(t, []):
            if b["pos"] not in [s["pos"] for s in sts]:
                sts.append(b)
                if b["rule"] in rules and rules[b["rule"]]["pos"] not in [s["pos"] for s in sts]:
                    sts.append(rules[b["rule"]])
            todo += b["inputs"] + b["order_only"]
    return [s["text"] for s in sorted(sts, key=lambda s: s["pos"])]


def canon(path):
    """a path as ninja canonicalizes it (CanonicalizePath): `.` components, empty components and `dir/..` pairs are dropped"""
    parts = []
    for part in path.split("/"):
        if part in ("", "."):
            continue
        if part == ".." and parts and parts[-1] != "..":
            parts.pop()
        else:
            parts.append(part)
    return ("/" if path.startswith("/") else "") + "/".join(parts)
