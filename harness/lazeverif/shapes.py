"""Post-pass shapes: structures that the base generator (projgen.Gen) never or rarely produces, applied to a generated project
with their own PRNG stream (so the base project of a given (seed, index) stays what it was). Each knob is a probability in the
profile. They exist because seeded changes of round 2 needed them to manifest (DESIGN §10):

 p_ctx_shuffle        contexts / builders written in an order where a child precedes its parent (same list, or the parent in a
                      later YAML document)
 p_app_dup            an app name defined a second time in another context (sibling or nested)
 p_rule_field_variant two contexts overriding the same rule with identical commands that differ in exactly one other field
                      (description, pool, rspfile, rspfile_content, gcc_deps, always, export)
 p_defaults_lists     a document whose defaults carry conflicts / provides / provides_unique / selects / uses while a module of the
                      document has its own list of the same kind
 p_global_dep_order   two global build deps selected in different orders by two apps that share a custom-build module
 p_late_ifthen_leaf   N has an if-then dependency L: [D]; L has no dependencies of its own and is reached after N through an
                      optional dependency or as one of several providers; D cannot be resolved
 round 4:
 p_rule_rename_chain  default defines CC for .c, a middle context a differently NAMED rule for .c, a builder below it CC for .c again
                      (rules are keyed by input extension, not by name); variant: the builder re-defines the name for another extension
 p_ifthen_feature_cond an if-then dependency whose condition is only a PROVIDED feature name (never a module): it is not active in the
                      resolver nor in the import closure, although its target is in the build and exports variables
 p_empty_blockallow   an app (or the app defaults) with an explicitly empty allowlist / blocklist
 p_rule_export_escape a rule exporting a value with an escaped reference to a defined variable
 p_optsrc_same_guard  a module naming the same optional-source guard twice (own list, or defaults + own)
 p_shadowed_provider  >= 3 providers of one feature spread over a context chain of depth >= 3, and a nearer context re-defining one of
                      them WITHOUT the feature (the shadowed provider drops out; the others keep nearest-first order); plain / unique
 p_two_patched_downloads  two (or three) different downloaded modules with patches in one build: every one of them renders the GIT_PATCH rule
 p_custom_build_no_out a custom build (`build:`) without `out` / with an empty `out` list, in a configured build
 p_cli_comma_define   a `-D` value containing commas and further `=` signs (`-D LIBS=-Wl,-Map=out.map`): one assignment, split at the first `=`
 p_self_named_unique  a module named like the feature it claims with `provides_unique` (the default implementation of `stdio` is called
                      `stdio`), plus another provider of that name, selected in either order
 p_defaults_uses_removed  defaults listing a module under uses / depends / selects and a module of the document removing it again with `-name`
                      in its own list of the same kind (the removed module stays in the build through the app and exports env)
 p_app_custom_build   an APP with its own `build:` (out ≠ ${outfile}) whose only sources are optional, guard selected in some builders only
 p_same_dldir_downloads  two downloaded modules sharing one `dldir` (one tag file), one using the other; one app selects both, another one
 p_desc_with_builder  a rule `description:` mentioning `${builder}` / `${app}` (laze leaves descriptions alone: the text is not part of what
                      differs between builds)
 p_srcdir_in_root_download  a downloaded module declared in the root file (no dldir) and a second module whose `srcdir:` is a sub-directory of
                      the download directory
 p_provided_name_is_module  a name that is both a real module and provided by a build-dependency module; a third module depends on the name
 p_download_with_srcdir  a downloaded module with an explicit `srcdir:` (the download goes there, and so does its tag file)
 p_task_killed        a task command that is killed by a signal (stand-in sh: `KILLME`), with or without `ignore_ctrl_c: true`: a failed command
 round 6:
 p_no_link_rule_builder  a builder whose context chain has no LINK rule (an env-less root of its own), with an app that has no sources
 p_cli_define_builtin    `-D` of one of laze's own variables (build-dir, builder, app, outfile, project-root, relpath, root, srcdir, modules, contexts)
 p_varopts_from_chain    a `from:` option whose source only exists as the product of another `from:` option (rejected, identically in every run)
 p_defaults_other_kind_below  `defaults: app:` (block/allow lists, context) inherited through subdirs, with a file below whose `defaults:` has
                      only the OTHER kind (`module:`), and an app in or below that file (and the mirror image)
 p_varopts_on_builtin    var_options on the built-in list `modules` / `contexts`, directly or through `from:`
 p_empty_patch_list      a download with `patches: []`
 p_rule_text_newline  a rule whose `cmd:` (or description) was written as a YAML block scalar: it ends with a line break, or has one inside
 p_uses_removal_marker / p_suffix_ext_rules / p_srcdir_dot / p_module_sets_builtin_var / p_context_prefixed_module / p_alias_spellings /
 p_root_context_disables / p_escaped_early_var / p_dup_context_list / p_empty_task_map / p_download_not_build_dep / p_global_deps_chain
                         round 7, see the doc string of each function
 p_subdirs_later_doc  a multi-document file listing a sub-directory from a document that is not the first, with different defaults
"""
import copy, random


def _root(p):
    return p["files"]["laze-project.yml"][0]


def _all_docs(p):
    for path, docs in p["files"].items():
        for d in docs:
            yield path, d


def _modules(p, kinds=("modules", "apps")):
    for path, d in _all_docs(p):
        for k in kinds:
            for m in d.get(k) or []:
                yield k, m, path, d


def ctx_shuffle(p, rng):
    root = _root(p)
    if "contexts" not in root or "builders" not in root:
        return
    ctxs = root["contexts"]
    blds = root["builders"]
    mode = rng.choice(["shuffle", "reverse", "later_doc"])
    if mode == "later_doc" and len(ctxs) >= 2:
        # move some non-first contexts that are parents of something into a later document
        names_with_children = {c.get("parent", "default") for c in ctxs + blds}
        movable = [c for c in ctxs[1:] if c["name"] in names_with_children] or ctxs[1:]
        mv = rng.sample(movable, rng.randint(1, len(movable)))
        root["contexts"] = [c for c in ctxs if not any(c is m for m in mv)]
        p["files"]["laze-project.yml"].append({"contexts": mv})
    elif mode == "reverse":
        root["contexts"] = ctxs[:1] + ctxs[1:][::-1] if rng.random() < 0.5 else ctxs[::-1]
        root["builders"] = blds[::-1]
    else:
        head = ctxs[:1] if rng.random() < 0.5 else []
        rest = ctxs[len(head):]
        rng.shuffle(rest)
        root["contexts"] = head + rest
        rng.shuffle(blds)
        root["builders"] = blds


def app_dup(p, rng):
    apps = [(m, d, path) for k, m, path, d in _modules(p, ("apps",))]
    if not apps:
        return
    a, d, apath = rng.choice(apps)
    cnames = [c["name"] for c in (_root(p).get("contexts") or []) + (_root(p).get("builders") or [])]
    for docs in p["files"].values():
        for dd in docs[1:]:
            cnames += [c["name"] for c in dd.get("contexts") or []]
    cur = a.get("context", "default")
    cur = cur if isinstance(cur, list) else [cur]
    # every context that already defines this app name
    taken = set(cur)
    for k, m, path, dd in _modules(p, ("apps", "modules")):
        if m["name"] == a["name"]:
            c = m.get("context", "default")
            taken |= set(c if isinstance(c, list) else [c])
    parent = {}
    for path, dd in _all_docs(p):
        for c in (dd.get("contexts") or []) + (dd.get("builders") or []):
            parent[c["name"]] = c.get("parent", None if c["name"] == "default" else "default")

    def chain(c):
        out, seen = [], set()
        while c is not None and c not in seen:
            seen.add(c); out.append(c); c = parent.get(c)
        return out
    # not nested with any context that already defines the name: at most one definition is eligible for a builder
    free = [c for c in cnames if c not in taken and not any(t in chain(c) or c in chain(t) for t in taken)]
    if not free:
        return
    b = copy.deepcopy(a)
    b["context"] = rng.choice(free)
    if rng.random() < 0.5:
        b["sources"] = [a["name"] + "_dup.c"]
    if rng.random() < 0.3:
        b.setdefault("env", {}).setdefault("global", {})["X"] = "dup"
    args = p.setdefault("args", {})
    if rng.random() < 0.6:
        args["apps"] = sorted(set((args.get("apps") or []) + [a["name"]]))
    # the second definition sometimes lives in ANOTHER directory (local mode: the name is defined in the start directory and elsewhere)
    import os
    elsewhere = [dd for path, dd in _all_docs(p) if os.path.dirname(path) != os.path.dirname(apath) and not dd.get("contexts") and not dd.get("builders")]
    if elsewhere and rng.random() < 0.4:
        d = rng.choice(elsewhere)
    d.setdefault("apps", []).append(b)


FIELD_VARIANTS = [("description", "CC-A ${out}", "CC-B ${out}"), ("description", None, "compiling ${in}"), ("pool", None, "console"),
                  ("rspfile", None, "${out}.rsp"), ("rspfile_content", "${in}", "${in} x"), ("gcc_deps", None, "${out}.d"),
                  ("gcc_deps", "${out}.d", "${out}.dep"), ("always", None, True), ("export", ["X"], [{"X": "other"}]),
                  ("export", None, [{"Z": "z${OPT}"}]), ("out", "o", "obj")]


def rule_field_variant(p, rng):
    root = _root(p)
    cands = [c for c in (root.get("contexts") or [])[1:] + (root.get("builders") or [])]
    if len(cands) < 2:
        return
    a, b = rng.sample(cands, 2)
    field, va, vb = rng.choice(FIELD_VARIANTS)
    base = {"name": "CC", "in": "c", "out": "o", "cmd": "cc-var ${CFLAGS} ${DEFS} -c ${in} -o ${out}"}
    if field == "rspfile_content":
        base["rspfile"] = "${out}.rsp"
    for c, v in ((a, va), (b, vb)):
        r = dict(base)
        if v is not None:
            r[field] = v
        c["rules"] = [x for x in (c.get("rules") or []) if x.get("name") != "CC" and x.get("in") != "c"] + [r]


def defaults_lists(p, rng):
    docs = [(path, d) for path, d in _all_docs(p) if d.get("modules")]
    if not docs:
        return
    path, d = rng.choice(docs)
    names = sorted({m["name"] for k, m, pa, dd in _modules(p, ("modules",))})
    dm = d.setdefault("defaults", {}).setdefault("module", {})
    kinds = rng.sample(["conflicts", "provides", "provides_unique", "selects", "uses", "depends"], rng.randint(1, 3))
    for m in d["modules"][: rng.randint(1, 2)]:
        for kind in kinds:
            pool = ["f0", "f1", "f2"] if kind.startswith("provides") else [n for n in names if n != m["name"]] or ["nosuch"]
            dm.setdefault(kind, [])
            v = rng.choice(pool)
            if v not in dm[kind]:
                dm[kind].append(v)
            own = m.setdefault(kind, [])
            if isinstance(own, list):
                w = rng.choice(pool)
                if w not in own:
                    own.append(w)
    # optional sources: the defaults and a module of the document both list optional sources under the same guard
    if rng.random() < 0.5:
        guard = rng.choice(names) if names else "nosuch"
        dm.setdefault("sources", []).append({guard: ["dflt_opt.c"]})
        m = d["modules"][0]
        m.setdefault("sources", []).append({guard: [m["name"] + "_own_opt.c"]})
        for a in [x for k, x, pa, dd in _modules(p, ("apps",))][:1]:
            a["selects"] = ["?" + m["name"], "?" + guard] + list(a.get("selects") or [])
    # make the lists matter: an app selecting one module with merged lists and one module named by the defaults' conflicts
    apps = [m for k, m, pa, dd in _modules(p, ("apps",))]
    if apps and dm.get("conflicts"):
        a = rng.choice(apps)
        first = [d["modules"][0]["name"], dm["conflicts"][0]]
        if rng.random() < 0.5:
            first.reverse()
        a["selects"] = ["?" + x for x in first] + list(a.get("selects") or [])


def global_dep_order(p, rng):
    root = _root(p)
    mods = root.setdefault("modules", [])
    for g in ("gg1", "gg2"):
        mods.append({"name": g, "is_global_build_dep": True, "is_build_dep": True,
                     "build": {"cmd": ["gen > ${out}"], "out": ["${build-dir}/gg/" + g + ".h"]}})
    mods.append({"name": "ggm", "build": {"cmd": ["mk ${out}"], "out": ["${build-dir}/gg/table.h"]}, "is_build_dep": True})
    mods.append({"name": "gguser", "sources": ["gguser.c"], "depends": ["ggm"]})
    apps = [m for k, m, pa, dd in _modules(p, ("apps",))]
    orders = [["gg1", "gg2"], ["gg2", "gg1"]]
    for i, a in enumerate(apps):
        a["selects"] = orders[i % 2] + ["gguser"] + list(a.get("selects") or [])
    if len(apps) < 2:
        root.setdefault("apps", []).append({"name": "ggapp2", "sources": ["ggapp2.c"], "selects": orders[1] + ["gguser"]})


def late_ifthen_leaf(p, rng):
    root = _root(p)
    mods = root.setdefault("modules", [])
    mods.append({"name": "qd", "depends": ["qnonexistent"]})
    shape = rng.choice(["optional", "provider"])
    mods.append({"name": "qn", "sources": ["qn.c"], "depends": [{"ql": ["qd"]}]})
    if shape == "optional":
        mods.append({"name": "ql", "sources": ["ql.c"]})
        tail = ["?ql"]
    else:
        mods.append({"name": "ql", "provides": ["qf"]})
        mods.append({"name": "ql2", "provides": ["qf"], "sources": ["ql2.c"]})
        tail = ["qf"]
    for k, a, pa, dd in _modules(p, ("apps",)):
        key = "selects" if "selects" in a or "depends" not in a else "depends"
        a[key] = ["qn"] + list(a.get(key) or []) + tail


def dup_listing(p, rng):
    """the same lazefile reached twice: listed by two documents of one file, by two files, or twice in one list"""
    root_docs = p["files"]["laze-project.yml"]
    root = root_docs[0]
    listed = [("subdirs", x) for x in root.get("subdirs") or []] + [("includes", x) for x in root.get("includes") or []]
    if not listed:
        # make one: a small included file
        p["files"]["dupinc.yml"] = [{"modules": [{"name": "dupinc_m", "sources": ["dupinc_m.c"]}]}]
        root["includes"] = list(root.get("includes") or []) + ["dupinc.yml"]
        listed = [("includes", "dupinc.yml")]
    kind, x = rng.choice(listed)
    # (a file reached under two spellings of its path — `extra.yml` and `sub1/../extra.yml` — is loaded twice by laze and by the model and
    # rejected as duplicate modules: a finding noted in DESIGN §9.2, outside C17's "reachable through subdirs"; not generated)
    how = rng.choice(["second_doc", "same_list", "third_doc"])
    if how == "same_list":
        root[kind] = list(root[kind]) + [x]
    else:
        root_docs.append({kind: [x]})
        if how == "third_doc":
            root_docs.append({kind: [x]})


def rule_rename_chain(p, rng):
    root = _root(p)
    if "contexts" not in root or "builders" not in root:
        return
    dflt = next((c for c in root["contexts"] if c.get("name") == "default"), None)
    if dflt is None or not any(r.get("in") == "c" for r in dflt.get("rules") or []):
        return
    variant = rng.choice(["same-ext", "same-ext", "other-ext"])
    root["contexts"].append({"name": "rnmid", "parent": "default",
                             "rules": [{"name": "CLANG", "in": "c", "out": "o", "cmd": "clang-mid ${CFLAGS} -c ${in} -o ${out}"}]})
    if variant == "same-ext":
        root["builders"].append({"name": "rnb", "parent": "rnmid",
                                 "rules": [{"name": "CC", "in": "c", "out": "o", "cmd": "cc-rnb ${CFLAGS} ${DEFS} -c ${in} -o ${out}"}]})
    else:
        # the builder re-defines the NAME CC for another extension: .c files keep the middle context's CLANG
        root["builders"].append({"name": "rnb", "parent": "rnmid",
                                 "rules": [{"name": "CC", "in": "cc", "out": "o", "cmd": "cxx-rnb -c ${in} -o ${out}"}]})
    if rng.random() < 0.6:
        root["builders"].append({"name": "rnb2", "parent": "rnmid"})
    args = p.setdefault("args", {})
    if args.get("builders") is not None and rng.random() < 0.8:
        args["builders"] = list(args["builders"]) + ["rnb"] + (["rnb2"] if any(b["name"] == "rnb2" for b in root["builders"]) else [])


def ifthen_feature_cond(p, rng):
    root = _root(p)
    mods = root.setdefault("modules", [])
    mods.append({"name": "fcp", "provides": ["fcfeat"], "sources": ["fcp.c"]})
    mods.append({"name": "fct", "sources": ["fct.c"], "env": {"export": {"DEFS": ["-DFCT=1"], "CFLAGS": ["-Ifct"]}}})
    kind = rng.choice(["depends", "depends", "uses-like"])
    user = {"name": "fcu", "sources": ["fcu.c"], "depends": [{"fcfeat": ["fct"]}]}
    if kind == "uses-like":
        user["depends"] = [{"fcfeat": ["?fct"]}]
    mods.append(user)
    for k, a, pa, dd in _modules(p, ("apps",)):
        key = "selects" if "selects" in a or "depends" not in a else "depends"
        order = ["fcp", "fct", "fcu"]
        rng.shuffle(order)
        a[key] = order + list(a.get(key) or [])


def empty_blockallow(p, rng):
    apps = [(a, d) for k, a, pa, d in _modules(p, ("apps",))]
    if not apps:
        return
    a, d = rng.choice(apps)
    how = rng.choice(["allow-empty", "allow-empty", "block-empty", "both-empty", "allow-empty-block-some", "block-empty-allow-some", "defaults"])
    root = _root(p)
    names = [c["name"] for c in (root.get("contexts") or []) + (root.get("builders") or [])]
    some = [rng.choice(names)] if names else ["default"]
    if how == "allow-empty":
        a["allowlist"] = []
        a.pop("blocklist", None)
    elif how == "block-empty":
        a["blocklist"] = []
    elif how == "both-empty":
        a["allowlist"], a["blocklist"] = [], []
    elif how == "allow-empty-block-some":
        a["allowlist"], a["blocklist"] = [], some
    elif how == "block-empty-allow-some":
        a["blocklist"], a["allowlist"] = [], some
    else:
        d.setdefault("defaults", {}).setdefault("app", {})["allowlist"] = []


def rule_export_escape(p, rng):
    root = _root(p)
    cands = [c for c in (root.get("contexts") or []) + (root.get("builders") or []) if c.get("rules")]
    if not cands:
        return
    c = rng.choice(cands)
    rules = [r for r in c["rules"] if r.get("in") in ("c", "S") or r.get("name") == "LINK"]
    if not rules:
        return
    r = rng.choice(rules)
    var = rng.choice(["OPT", "X", "LIBS", "builder", "nosuchvar"])
    val = rng.choice(["set \\${%s} first" % var, "\\${%s}" % var, "a\\${%s}b${%s}" % (var, var), "${%s}\\${%s}" % (var, var)])
    r["export"] = list(r.get("export") or []) + [{"HINT": val}]
    if rng.random() < 0.5:
        c.setdefault("env", {})
        if isinstance(c["env"], dict):
            c["env"].setdefault(var if var != "builder" else "X", "defd")


def optsrc_same_guard(p, rng):
    mods = [(m, d) for k, m, pa, d in _modules(p, ("modules",)) if isinstance(m.get("sources", []), list)]
    names = sorted({m["name"] for m, d in mods if m.get("name")})
    if not mods or not names:
        return
    m, d = rng.choice(mods)
    guard = rng.choice([n for n in names if n != m.get("name")] or names)
    src = m.setdefault("sources", [])
    nm = m.get("name") or "anon"
    src.append({guard: [nm + "_g1.c"]})
    if rng.random() < 0.5:
        src.append({guard: [nm + "_g2.c"]})
    else:
        d.setdefault("defaults", {}).setdefault("module", {}).setdefault("sources", []).append({guard: ["dflt_g.c"]})
    for k, a, pa, dd in list(_modules(p, ("apps",)))[:2]:
        key = "selects" if "selects" in a or "depends" not in a else "depends"
        a[key] = ["?" + nm, "?" + guard] + list(a.get(key) or [])


def shadowed_provider(p, rng):
    root = _root(p)
    if "contexts" not in root or "builders" not in root:
        return
    depth = rng.randint(3, 5)
    chain = ["default"] + [f"sp{k}" for k in range(1, depth)]
    for k in range(1, depth):
        root["contexts"].append({"name": chain[k], "parent": chain[k - 1]})
    root["builders"].append({"name": "spb", "parent": chain[-1]})
    if rng.random() < 0.5:
        root["builders"].append({"name": "spb_mid", "parent": chain[rng.randint(1, depth - 1)]})
    key = rng.choice(["provides", "provides", "provides_unique"])
    mods = root.setdefault("modules", [])
    provs = []
    # one or two providers per context of the chain (root first), so that the inherited list is long enough for a removal in the
    # middle to disturb the order of what follows
    for k in range(depth - 1):
        for j in range(rng.randint(1, 2)):
            name = f"spp{k}_{j}"
            m = {"name": name, "context": chain[k], key: ["spfeat"], "sources": [name + ".c"]}
            mods.append(m)
            provs.append((k, name))
    # shadow one provider that is not the last of the inherited list: same name, nearer context, no feature
    cands = [pn for pn in provs[:-2]] or provs[:1]
    k0, victim = rng.choice(cands)
    shadow_ctx = chain[rng.randint(max(k0 + 1, depth - 2), depth - 1)]
    mods.append({"name": victim, "context": shadow_ctx, "sources": [victim + "_shadow.c"]})
    for kind, a, pa, dd in _modules(p, ("apps",)):
        kk = "selects" if "selects" in a or "depends" not in a else "depends"
        a[kk] = [rng.choice(["spfeat", "?spfeat"])] + list(a.get(kk) or [])
    args = p.setdefault("args", {})
    if args.get("builders") is not None:
        args["builders"] = list(args["builders"]) + ["spb"]


def two_patched_downloads(p, rng):
    root = _root(p)
    dflt = next((c for c in root.get("contexts") or [] if c.get("name") == "default"), None)
    if dflt is None or not any(r.get("name") == "GIT_PATCH" for r in dflt.get("rules") or []):
        return
    mods = root.setdefault("modules", [])
    n = rng.randint(2, 3)
    names = [f"pd{k}" for k in range(n)]
    for k, nm in enumerate(names):
        m = {"name": nm, "download": {"git": {"url": f"https://example.invalid/{nm}.git", "commit": "0123abcd"},
                                      "patches": [f"{nm}-fix.patch"] + (["second.patch"] if rng.random() < 0.3 else [])},
             "sources": [nm + ".c"]}
        if k and rng.random() < 0.4:
            m["depends"] = [names[k - 1]]
        mods.append(m)
    for kind, a, pa, dd in _modules(p, ("apps",)):
        kk = "selects" if "selects" in a or "depends" not in a else "depends"
        a[kk] = [names[0]] + [rng.choice(["", "?"]) + x for x in names[1:]] + list(a.get(kk) or [])


def custom_build_no_out(p, rng):
    root = _root(p)
    mods = root.setdefault("modules", [])
    b = {"cmd": ["regen-tables"]}
    if rng.random() < 0.4:
        b["out"] = []
    mods.append({"name": "nbo", "build": b, **({"is_build_dep": True} if rng.random() < 0.5 else {})})
    for kind, a, pa, dd in list(_modules(p, ("apps",)))[: rng.randint(1, 2)]:
        kk = "selects" if "selects" in a or "depends" not in a else "depends"
        a[kk] = list(a.get(kk) or []) + [rng.choice(["nbo", "nbo", "?nbo"])]


def cli_comma_define(p, rng):
    a = p.setdefault("args", {})
    var = rng.choice(["LIBS", "CFLAGS", "X", "DEFS"])
    val = rng.choice(["-Wl,-Map=out.map", "a,b", "x,y=z", ",", "a, b", " lead", "trail ", " both sides ", "\tx"])
    if rng.random() < 0.12:
        var += " "            # `-D 'X =v'` names the variable "X " (blanks are part of what is written)
    a["define"] = list(a.get("define") or []) + [var + rng.choice(["=", "+="]) + val]


def self_named_unique(p, rng):
    root = _root(p)
    mods = root.setdefault("modules", [])
    how = rng.choice(["unique", "unique", "conflicts+provides"])
    if how == "unique":
        mods.append({"name": "snfeat", "provides_unique": ["snfeat"], "sources": ["snfeat.c"]})
    else:
        mods.append({"name": "snfeat", "conflicts": ["snfeat"], "provides": ["snfeat"], "sources": ["snfeat.c"]})
    mods.append({"name": "snalt", "provides": ["snfeat"], "sources": ["snalt.c"]})
    order = rng.choice([["snfeat", "?snalt"], ["snalt", "?snfeat"], ["?snalt", "?snfeat"], ["snfeat", "snalt"]])
    for kind, a, pa, dd in _modules(p, ("apps",)):
        kk = "selects" if "selects" in a or "depends" not in a else "depends"
        a[kk] = order + list(a.get(kk) or [])


def defaults_uses_removed(p, rng):
    docs = [(path, d) for path, d in _all_docs(p) if d.get("modules")]
    if not docs:
        return
    path, d = rng.choice(docs)
    root = _root(p)
    root.setdefault("modules", []).append({"name": "durcfg", "env": {"export": {"CFLAGS": ["-DDUR_CFG=1"], "DEFS": ["-DDUR"]}}})
    dm = d.setdefault("defaults", {}).setdefault("module", {})
    kind = rng.choice(["uses", "uses", "depends", "selects"])
    dm[kind] = list(dm.get(kind) or []) + [rng.choice(["durcfg", "?durcfg"]) if kind != "uses" else "durcfg"]
    m = d["modules"][0]
    if not isinstance(m.get(kind, []), list):
        return
    m[kind] = list(m.get(kind) or []) + ["-durcfg"]
    m.setdefault("sources", [])
    if isinstance(m["sources"], list) and not m["sources"]:
        m["sources"].append((m.get("name") or "anon") + "_dur.c")
    for k, a, pa, dd in list(_modules(p, ("apps",)))[:2]:
        kk = "selects" if "selects" in a or "depends" not in a else "depends"
        a[kk] = ["durcfg"] + (["?" + m["name"]] if m.get("name") else []) + list(a.get(kk) or [])


def app_custom_build(p, rng):
    root = _root(p)
    root.setdefault("modules", []).append({"name": "acbguard", "sources": ["acbguard.c"]})
    root.setdefault("apps", []).append({"name": "acbapp", "selects": ["?acbguard"],
                                        "sources": [{"acbguard": ["acb_diag.c"]}] + (["acb_main.c"] if rng.random() < 0.3 else []),
                                        "build": {"cmd": ["pack ${in} > ${out}"], "out": ["${bindir}/bundle.pkg"]}})
    blds = root.get("builders") or []
    if blds:
        b = rng.choice(blds)
        b["disables"] = list(b.get("disables") or []) + ["acbguard"]
    a = p.setdefault("args", {})
    if a.get("apps") is not None:
        a["apps"] = list(a["apps"]) + ["acbapp"]


def same_dldir_downloads(p, rng):
    root = _root(p)
    dflt = next((c for c in root.get("contexts") or [] if c.get("name") == "default"), None)
    if dflt is None or not any(r.get("name") == "GIT_DOWNLOAD" for r in dflt.get("rules") or []):
        return
    mods = root.setdefault("modules", [])
    git = {"git": {"url": "https://example.invalid/sdd.git", "commit": "0123abcd"}}
    mods.append({"name": "sdd_a", "download": dict(git, dldir="sdd_shared"), "sources": ["sdd_a.c"]})
    mods.append({"name": "sdd_b", "download": dict(git, dldir="sdd_shared"), "sources": ["sdd_b.c"], rng.choice(["uses", "depends"]): ["sdd_a"]})
    apps = [a for k, a, pa, dd in _modules(p, ("apps",))]
    for i, a in enumerate(apps):
        kk = "selects" if "selects" in a or "depends" not in a else "depends"
        a[kk] = (["sdd_a", "sdd_b"] if i % 2 == 0 else ["sdd_b"]) + list(a.get(kk) or [])
    if len(apps) < 2:
        root.setdefault("apps", []).append({"name": "sddapp2", "sources": ["sddapp2.c"], "selects": ["sdd_b"]})


def desc_with_builder(p, rng):
    root = _root(p)
    cands = [c for c in (root.get("contexts") or []) if c.get("rules")]
    if not cands:
        return
    c = rng.choice(cands)
    rules = [r for r in c["rules"] if r.get("in") in ("c", "S", "o")]
    if rules:
        rng.choice(rules)["description"] = rng.choice(["CC ${builder} ${out}", "${app}: ${in}", "[${builder}/${app}] ${out}", "x ${CFLAGS}"])


def srcdir_in_root_download(p, rng):
    root = _root(p)
    dflt = next((c for c in root.get("contexts") or [] if c.get("name") == "default"), None)
    if dflt is None or not any(r.get("name") == "GIT_DOWNLOAD" for r in dflt.get("rules") or []):
        return
    mods = root.setdefault("modules", [])
    mods.append({"name": "rdl", "download": {"git": {"url": "https://example.invalid/rdl.git", "commit": "0123abcd"}}})
    sub = rng.choice(["library/x509", "src", "a/b/c"])
    mods.append({"name": "rdlsub", "srcdir": "${build-dir}/dl/rdl/" + sub, "sources": ["crt.c", "crl.c"], rng.choice(["depends", "uses"]): ["rdl"]})
    if rng.random() < 0.5:
        mods.append({"name": "rdlexact", "srcdir": "${build-dir}/dl/rdl", "sources": ["top.c"], "depends": ["rdl"]})
    for k, a, pa, dd in list(_modules(p, ("apps",)))[:2]:
        kk = "selects" if "selects" in a or "depends" not in a else "depends"
        a[kk] = ["rdlsub"] + (["?rdlexact"] if rng.random() < 0.5 else []) + list(a.get(kk) or [])


def provided_name_is_module(p, rng):
    root = _root(p)
    dflt = next((c for c in root.get("contexts") or [] if c.get("name") == "default"), None)
    has_dl = dflt is not None and any(r.get("name") == "GIT_DOWNLOAD" for r in dflt.get("rules") or [])
    mods = root.setdefault("modules", [])
    mods.append({"name": "pnm", "sources": ["pnm.c"]})
    backend = {"name": "pnm_backend", "provides": ["pnm"], "sources": ["pnm_backend.c"]}
    if has_dl and rng.random() < 0.5:
        backend["download"] = {"git": {"url": "https://example.invalid/pnmb.git", "commit": "0123abcd"}}
    else:
        backend["is_build_dep"] = True
        backend["build"] = {"cmd": ["gen ${out}"], "out": ["${build-dir}/gen/pnm_backend.h"]}
        backend.pop("sources")
    mods.append(backend)
    mods.append({"name": "pnmuser", "sources": ["pnmuser.c"], rng.choice(["depends", "uses"]): ["pnm"]})
    for k, a, pa, dd in list(_modules(p, ("apps",)))[:2]:
        kk = "selects" if "selects" in a or "depends" not in a else "depends"
        a[kk] = ["pnm_backend", "pnm", "pnmuser"] + list(a.get(kk) or [])


def download_with_srcdir(p, rng):
    root = _root(p)
    dflt = next((c for c in root.get("contexts") or [] if c.get("name") == "default"), None)
    if dflt is None or not any(r.get("name") == "GIT_DOWNLOAD" for r in dflt.get("rules") or []):
        return
    mods = root.setdefault("modules", [])
    m = {"name": "dws", "srcdir": rng.choice(["vendor/dws", "third_party/dws/src"]), "sources": ["dws.c"],
         "download": {"git": {"url": "https://example.invalid/dws.git", "commit": "0123abcd"}}}
    if rng.random() < 0.3 and any(r.get("name") == "GIT_PATCH" for r in dflt.get("rules") or []):
        m["download"]["patches"] = ["dws.patch"]
    mods.append(m)
    mods.append({"name": "dwsuser", "sources": ["dwsuser.c"], rng.choice(["depends", "uses"]): ["dws"]})
    for k, a, pa, dd in list(_modules(p, ("apps",)))[:2]:
        kk = "selects" if "selects" in a or "depends" not in a else "depends"
        a[kk] = ["dws", "dwsuser"] + list(a.get(kk) or [])


def task_killed(p, rng):
    root = _root(p)
    cands = [c for c in (root.get("contexts") or []) + (root.get("builders") or []) if isinstance(c.get("tasks"), dict) and c["tasks"]]
    mods = [m for k, m, pa, dd in _modules(p) if isinstance(m.get("tasks"), dict) and m["tasks"]]
    holders = cands + mods
    if not holders:
        return
    h = rng.choice(holders)
    name = rng.choice(sorted(h["tasks"]))
    t = h["tasks"][name]
    if not isinstance(t.get("cmd"), list) or not t["cmd"]:
        return
    i = rng.randrange(len(t["cmd"]))
    t["cmd"][i] = str(t["cmd"][i]).replace(" FAILME", "") + " KILLME"
    if rng.random() < 0.6:
        t["ignore_ctrl_c"] = True
    if len(t["cmd"]) == 1 or rng.random() < 0.5:
        t["cmd"].append("after-the-killed-one ${app}")


def no_link_rule_builder(p, rng):
    root = _root(p)
    if "contexts" not in root or "builders" not in root:
        return
    root["contexts"].append({"name": "nolink", "parent": None} if False else {"name": "nolink_root_env", "parent": "default"})
    # a second root is not possible (every context descends from default); instead: a builder under `default` whose LINK rule is
    # taken away is not expressible either — so the app is sourceless and the builder chain's LINK rule is removed from default when
    # default defines it alone
    dflt = next((c for c in root["contexts"] if c.get("name") == "default"), None)
    root["contexts"] = [c for c in root["contexts"] if c.get("name") != "nolink_root_env"]
    if dflt is None or not isinstance(dflt.get("rules"), list):
        return
    link = [r for r in dflt["rules"] if r.get("name") == "LINK"]
    if not link:
        return
    # move LINK from default into every existing child of default, so that a NEW builder directly under default has none
    dflt["rules"] = [r for r in dflt["rules"] if r.get("name") != "LINK"]
    for c in root["contexts"] + root["builders"]:
        if c is not dflt and c.get("parent", "default") == "default":
            c["rules"] = list(c.get("rules") or []) + [dict(link[0])]
    root["builders"].append({"name": "nlb", "parent": "default", "tasks": {"maint": {"cmd": ["echo maint ${app}"], "build": False}}})
    root.setdefault("apps", []).append({"name": "nlbapp"} if rng.random() < 0.6 else {"name": "nlbapp", "sources": [{"nosuchguard": ["never.c"]}]})
    a = p.setdefault("args", {})
    if a.get("builders") is not None:
        a["builders"] = list(a["builders"]) + ["nlb"]
    if a.get("apps") is not None:
        a["apps"] = list(a["apps"]) + ["nlbapp"]


def cli_define_builtin(p, rng):
    a = p.setdefault("args", {})
    var = rng.choice(["build-dir", "build-dir", "builder", "app", "outfile", "project-root", "relpath", "root", "srcdir", "modules", "contexts", "bindir"])
    a["define"] = list(a.get("define") or []) + [var + rng.choice(["=", "=", "+="]) + rng.choice(["artifacts", "x/y", "zz"])]


def varopts_from_chain(p, rng):
    root = _root(p)
    blds = root.get("builders") or []
    if not blds:
        return
    b = rng.choice(blds)
    vo = b.setdefault("var_options", {})
    if not isinstance(vo, dict):
        return
    vo["CHAIN_A"] = {"from": "CFLAGS", "prefix": "-A"}
    vo["CHAIN_B"] = {"from": "CHAIN_A", "prefix": "-B"}
    if rng.random() < 0.5:
        vo["CHAIN_C"] = {"from": "CHAIN_B", "joiner": ","}
    env = b.setdefault("env", {})
    if isinstance(env, dict):
        env.setdefault("CFLAGS", ["x", "y"])


def defaults_other_kind_below(p, rng):
    docs = p["files"]["laze-project.yml"]
    root = docs[0]
    names = [c["name"] for c in (root.get("contexts") or []) + (root.get("builders") or []) if c.get("name")]
    kind, other = rng.choice([("app", "module"), ("app", "module"), ("module", "app")])
    d1 = "dok%d" % rng.randint(0, 9)
    inherited = {"env": {"local": {"DEFS": ["-DINHERITED_%s" % kind.upper()]}}}
    if kind == "app":
        inherited[rng.choice(["blocklist", "allowlist"])] = [rng.choice(names or ["default"])]
    else:
        inherited["uses"] = []
        inherited["sources"] = ["inh_common.c"]
    p["files"][d1 + "/laze.yml"] = [{"defaults": {kind: inherited}, "subdirs": ["lower"]}]
    below = {"defaults": {other: {"env": {"local": {"LIBS": ["-lother"]}}}}}
    if rng.random() < 0.3:
        below["defaults"] = {}
    key = "apps" if kind == "app" else "modules"
    below[key] = [{"name": d1 + "_x", "sources": [d1 + "_x.c"]}]
    if rng.random() < 0.5:
        below["subdirs"] = ["deeper"]
        p["files"][d1 + "/lower/deeper/laze.yml"] = [{key: [{"name": d1 + "_y", "sources": [d1 + "_y.c"]}]}]
    p["files"][d1 + "/lower/laze.yml"] = [below]
    root["subdirs"] = list(root.get("subdirs") or []) + [d1]
    a = p.setdefault("args", {})
    if kind == "app" and a.get("apps") is not None:
        a["apps"] = list(a["apps"]) + [d1 + "_x"]
    if kind == "module":
        for k, ap, pa, dd in list(_modules(p, ("apps",)))[:2]:
            kk = "selects" if "selects" in ap or "depends" not in ap else "depends"
            ap[kk] = ["?" + d1 + "_x", "?" + d1 + "_y"] + list(ap.get(kk) or [])


def varopts_on_builtin(p, rng):
    root = _root(p)
    blds = (root.get("builders") or []) + [c for c in (root.get("contexts") or []) if c.get("name") == "default"]
    if not blds:
        return
    b = rng.choice(blds)
    vo = b.setdefault("var_options", {})
    if not isinstance(vo, dict):
        return
    which = rng.choice(["modules", "contexts"])
    if rng.random() < 0.5:
        vo[which] = {"prefix": "-DM_", "suffix": "=1", "joiner": rng.choice([" ", ","])}
    else:
        vo["MODDEFS"] = {"from": which, "prefix": "-DM_", "suffix": "=1"}
        dflt = next((c for c in root.get("contexts") or [] if c.get("name") == "default"), None)
        if dflt and isinstance(dflt.get("rules"), list):
            for r in dflt["rules"]:
                if r.get("name") == "LINK":
                    r["cmd"] = r["cmd"] + " ${MODDEFS}"


def empty_patch_list(p, rng):
    root = _root(p)
    dflt = next((c for c in root.get("contexts") or [] if c.get("name") == "default"), None)
    if dflt is None or not any(r.get("name") == "GIT_DOWNLOAD" for r in dflt.get("rules") or []):
        return
    mods = root.setdefault("modules", [])
    mods.append({"name": "epl", "download": {"git": {"url": "https://example.invalid/epl.git", "commit": "0123abcd"}, "patches": []}, "sources": ["epl.c"]})
    mods.append({"name": "epluser", "sources": ["epluser.c"], "depends": ["epl"]})
    for k, a, pa, dd in list(_modules(p, ("apps",)))[:2]:
        kk = "selects" if "selects" in a or "depends" not in a else "depends"
        a[kk] = ["epluser"] + list(a.get(kk) or [])


def rule_text_newline(p, rng):
    root = _root(p)
    cands = [c for c in (root.get("contexts") or []) + (root.get("builders") or []) if c.get("rules")]
    if not cands:
        return
    c = rng.choice(cands)
    r = rng.choice(c["rules"])
    how = rng.choice(["cmd-trailing", "cmd-trailing", "cmd-trailing", "cmd-inner", "description-trailing", "description-inner",
                      "build-cmd-trailing", "build-cmd-trailing", "build-cmd-inner", "other-field", "crlf"])
    builds = [m for k, m, path, d in _modules(p) if isinstance(m.get("build"), dict) and m["build"].get("cmd")]
    if how.startswith("build-cmd") and builds:
        b = rng.choice(builds)["build"]
        cmds = b["cmd"] = [str(x) for x in b["cmd"]]
        i = rng.randrange(len(cmds))
        if how == "build-cmd-trailing":
            for j in set([i, rng.randrange(len(cmds))]):
                cmds[j] += "\n"
        else:
            cmds[i] = "echo a\necho b; " + cmds[i]
        return
    if how == "other-field":
        r[rng.choice(["pool", "rspfile", "rspfile_content", "gcc_deps"])] = rng.choice(["x\n", "a\nb", "$out.d\n"])
        return
    if how == "crlf":
        r["cmd"] = str(r.get("cmd", "")) + rng.choice(["\r\n", "\n\n", "\r", " \n"])
        return
    if how == "cmd-trailing":
        r["cmd"] = str(r.get("cmd", "")) + "\n"
    elif how == "cmd-inner":
        r["cmd"] = "echo first\n" + str(r.get("cmd", ""))
    elif how == "description-trailing":
        r["description"] = str(r.get("description") or r.get("name")) + " ${out}\n"
    else:
        r["description"] = "line one\nline two"


def subdirs_later_doc(p, rng):
    docs = p["files"]["laze-project.yml"]
    root = docs[0]
    sub = "ld%d" % rng.randint(0, 9)
    p["files"][sub + "/laze.yml"] = [{"modules": [{"name": sub + "_m", "sources": [sub + "_m.c"]}]}]
    later = {"defaults": {"module": {"env": {"local": {"DEFS": ["-DLATER_DOC"]}}, "sources": ["later_common.c"]}}, "subdirs": [sub]}
    if rng.random() < 0.5:
        later["modules"] = [{"name": sub + "_sib", "sources": [sub + "_sib.c"]}]
    if rng.random() < 0.6 and not root.get("defaults"):
        root["defaults"] = {"module": {"env": {"local": {"DEFS": ["-DFIRST_DOC"]}}}}
    docs.append(later)
    for k, a, pa, dd in list(_modules(p, ("apps",)))[:2]:
        key = "selects" if "selects" in a or "depends" not in a else "depends"
        a[key] = ["?" + sub + "_m"] + list(a.get(key) or [])


SHAPES = [("p_rule_rename_chain", rule_rename_chain), ("p_ifthen_feature_cond", ifthen_feature_cond), ("p_empty_blockallow", empty_blockallow),
          ("p_rule_export_escape", rule_export_escape), ("p_optsrc_same_guard", optsrc_same_guard), ("p_subdirs_later_doc", subdirs_later_doc), ("p_rule_text_newline", rule_text_newline), ("p_no_link_rule_builder", no_link_rule_builder), ("p_cli_define_builtin", cli_define_builtin),
          ("p_varopts_from_chain", varopts_from_chain), ("p_defaults_other_kind_below", defaults_other_kind_below), ("p_varopts_on_builtin", varopts_on_builtin),
          ("p_empty_patch_list", empty_patch_list), ("p_task_killed", task_killed), ("p_download_with_srcdir", download_with_srcdir), ("p_defaults_uses_removed", defaults_uses_removed), ("p_app_custom_build", app_custom_build),
          ("p_same_dldir_downloads", same_dldir_downloads), ("p_desc_with_builder", desc_with_builder), ("p_srcdir_in_root_download", srcdir_in_root_download),
          ("p_provided_name_is_module", provided_name_is_module), ("p_self_named_unique", self_named_unique), ("p_cli_comma_define", cli_comma_define), ("p_custom_build_no_out", custom_build_no_out), ("p_two_patched_downloads", two_patched_downloads), ("p_shadowed_provider", shadowed_provider),
          ("p_dup_listing", dup_listing), ("p_ctx_shuffle", ctx_shuffle), ("p_app_dup", app_dup), ("p_rule_field_variant", rule_field_variant),
          ("p_defaults_lists", defaults_lists), ("p_global_dep_order", global_dep_order), ("p_late_ifthen_leaf", late_ifthen_leaf)]



# ---------------------------------------------------------------- round 7

def _hard_names(m):
    return [x for x in (m.get("depends") or []) + (m.get("selects") or []) if isinstance(x, str) and x and not x.startswith(("?", "-"))]


def uses_removal_marker(p, rng):
    """`uses: [-x]` on a module whose hard dependency x comes from its own list or from `defaults:` — a marker acts on the list it is in"""
    cands = [(k, m, d) for k, m, path, d in _modules(p) if _hard_names(m)]
    if not cands:
        return
    k, m, d = rng.choice(cands)
    x = rng.choice(_hard_names(m))
    m["uses"] = list(m.get("uses") or []) + ["-" + x]
    if rng.random() < 0.4:
        dm = d.setdefault("defaults", {}).setdefault("module" if k == "modules" else "app", {})
        dm["depends"] = list(dm.get("depends") or []) + [x]
        if rng.random() < 0.5:
            for key in ("depends", "selects"):
                if isinstance(m.get(key), list):
                    m[key] = [e for e in m[key] if e != x]


def suffix_ext_rules(p, rng):
    """two compile rules whose input extensions are suffixes of one another (`c` / `cc`), and a module listing one right after the other"""
    root = _root(p)
    dflt = next((c for c in root.get("contexts") or [] if c.get("name") == "default"), None)
    if dflt is None or not isinstance(dflt.get("rules"), list):
        return
    long_ext = rng.choice(["cc", "cc", "inc"])
    if not any(r.get("in") == long_ext for r in dflt["rules"]):
        dflt["rules"].append({"name": "CXX2" if long_ext == "cc" else "INC2", "in": long_ext, "out": "o",
                              "cmd": "c++2 ${CFLAGS} -c ${in} -o ${out}"})
    cands = [m for k, m, path, d in _modules(p) if any(isinstance(x, str) and x.endswith(".c") for x in m.get("sources") or [])]
    if not cands:
        return
    m = rng.choice(cands)
    i = max(j for j, x in enumerate(m["sources"]) if isinstance(x, str) and x.endswith(".c"))
    m["sources"] = m["sources"][:i + 1] + [m["name"].replace("/", "_") + "_glue." + long_ext] + m["sources"][i + 1:]


def srcdir_dot(p, rng):
    """an explicit `srcdir: .` (`./`, empty) on a module defined in a sub-directory: relative to the project root, not 'unset'"""
    cands = [m for k, m, path, d in _modules(p) if "/" in path and m.get("sources") and "srcdir" not in m and not m.get("download")]
    if not cands:
        return
    rng.choice(cands)["srcdir"] = rng.choice([".", ".", "./", ""])


def module_sets_builtin_var(p, rng):
    """a module's `env.global` assigns `app` / `builder` (the context layer sets them, module globals are merged later)"""
    cands = [m for k, m, path, d in _modules(p, ("modules",)) if not isinstance(m.get("env"), dict) or isinstance(m["env"].get("global", {}), dict)]
    if not cands:
        return
    m = rng.choice(cands)
    m.setdefault("env", {}).setdefault("global", {})[rng.choice(["app", "app", "builder"])] = rng.choice(["firmware", "prod-${SV}", "x"])


def context_prefixed_module(p, rng):
    """an ordinary module whose name starts with `context` (the synthetic ones are `context::<name>`), with a global env"""
    root = _root(p)
    name = rng.choice(["context_switch", "context_switch", "contexts/gui", "context-menu", "context", "contextual"])
    root.setdefault("modules", []).append({"name": name, "sources": [name.replace("/", "_") + ".c"],
                                           "env": {"global": {"CFLAGS": ["-DHAVE_CTXSW"], "SV": "ctxsw"}, "export": {"DEFS": ["-DCTX_EXPORT"]}}})
    apps = [m for k, m, path, d in _modules(p, ("apps",))]
    for a in rng.sample(apps, min(len(apps), rng.randint(1, 2))):
        a["depends"] = list(a.get("depends") or []) + [name]


def alias_spellings(p, rng):
    """the old spellings serde still reads: `sharable` (rule), `buildable` (context), `disables` (module, = conflicts)"""
    how = rng.choice(["sharable", "sharable", "sharable", "buildable", "disables"])
    root = _root(p)
    if how == "sharable":
        rules = [r for c in (root.get("contexts") or []) + (root.get("builders") or []) for r in c.get("rules") or [] if r.get("out") and r.get("in")]
        if rules:
            r = rng.choice(rules)
            v = r.pop("shareable", None)
            r["sharable"] = r["shareable"] = False if v is None or rng.random() < 0.7 else v
            r["_alias"] = ["sharable"]
    elif how == "buildable":
        ctxs = [c for c in (root.get("contexts") or []) if c.get("name") != "default" and "is_builder" not in c]
        if ctxs:
            c = rng.choice(ctxs)
            c["buildable"] = c["is_builder"] = True
            c["_alias"] = ["buildable"]
            a = p.setdefault("args", {})
            if a.get("builders") is not None and rng.random() < 0.5:
                a["builders"] = list(a["builders"]) + [c["name"]]
    else:
        mods = [m for k, m, path, d in _modules(p) if m.get("conflicts")]
        if mods:
            m = rng.choice(mods)
            m["disables"] = m["conflicts"]
            m["_alias"] = ["disables"]


def root_context_disables(p, rng):
    """`disables:` on the explicitly declared root context `default`"""
    root = _root(p)
    dflt = next((c for c in root.get("contexts") or [] if c.get("name") == "default"), None)
    names = sorted({m["name"] for k, m, path, d in _modules(p, ("modules",)) if m.get("name")})
    if dflt is None or not names:
        return
    dflt["disables"] = list(dflt.get("disables") or []) + [rng.choice(names)]


def escaped_early_var(p, rng):
    """an ESCAPED reference to one of the load-time variables (`\\${relpath}`, `\\${root}`, `\\${srcdir}`) in an env value"""
    v = rng.choice(["relpath", "relpath", "root", "srcdir"])
    val = rng.choice(["-I\\${%s}/gen" % v, "pre \\${%s} post" % v, "\\${%s}" % v])
    tgt = rng.choice(["module", "module", "context", "defaults"])
    root = _root(p)
    if tgt == "context":
        cs = (root.get("contexts") or []) + (root.get("builders") or [])
        if cs:
            c = rng.choice(cs)
            env = c.setdefault("env", {})
            if isinstance(env, dict):
                env["CFLAGS"] = (env["CFLAGS"] if isinstance(env.get("CFLAGS"), list) else []) + [val]
        return
    mods = [(k, m, d) for k, m, path, d in _modules(p)]
    if not mods:
        return
    k, m, d = rng.choice(mods)
    if tgt == "defaults":
        m = d.setdefault("defaults", {}).setdefault("module" if k == "modules" else "app", {})
    env = m.setdefault("env", {})
    if not isinstance(env, dict):
        return
    layer = env.setdefault(rng.choice(["local", "export", "global"]), {})
    if isinstance(layer, dict):
        layer["CFLAGS"] = (layer["CFLAGS"] if isinstance(layer.get("CFLAGS"), list) else []) + [val]


def dup_context_list(p, rng):
    """a `context:` list naming one context twice — it means the module written once per listed context, i.e. twice in that one"""
    root = _root(p)
    cnames = [c["name"] for c in (root.get("contexts") or []) + (root.get("builders") or [])]
    mods = [m for k, m, path, d in _modules(p) if m.get("name")]
    if not mods or not cnames:
        return
    m = rng.choice(mods)
    cur = m.get("context", "default")
    cur = list(cur) if isinstance(cur, list) else [cur]
    other = [c for c in cnames if c not in cur]
    m["context"] = cur + ([rng.choice(other)] if other and rng.random() < 0.5 else []) + [cur[0]]


def empty_task_map(p, rng):
    """`defaults:` carrying tasks, and a module / app opting out with `tasks: {}` (its own map replaces the inherited one)"""
    docs = [(path, d) for path, d in _all_docs(p) if d.get("apps")]
    if not docs:
        return
    path, d = rng.choice(docs)
    dm = d.setdefault("defaults", {}).setdefault("app", {})
    dm["tasks"] = dict(dm.get("tasks") or {}, dflt_run={"cmd": ["echo dflt ${app}"], "build": rng.random() < 0.5})
    apps = d["apps"]
    a = rng.choice(apps)
    a["tasks"] = {} if rng.random() < 0.7 else {"own_t": {"cmd": ["echo own"], "build": False}}


def download_not_build_dep(p, rng):
    """a downloaded module with a literal `is_build_dep: false`: downloaded files always make it a build dependency"""
    mods = [m for k, m, path, d in _modules(p, ("modules",)) if m.get("download")]
    if not mods:
        root = _root(p)
        name = "dlnb"
        root.setdefault("modules", []).append({"name": name, "download": {"git": {"url": "https://example.invalid/dlnb.git", "commit": "abcd0123"}},
                                               "sources": ["dlnb.c"], "is_build_dep": False})
        apps = [m for k, m, path, d in _modules(p, ("apps",))]
        for a in apps[:1]:
            a["depends"] = list(a.get("depends") or []) + [name]
        return
    rng.choice(mods)["is_build_dep"] = False


def global_deps_chain(p, rng):
    """two global build dependencies where one uses the other (which is itself a build dependency)"""
    root = _root(p)
    first = {"name": "gsdk", "is_global_build_dep": True,
             "download": {"git": {"url": "https://example.invalid/gsdk.git", "commit": "00ff00ff"}}} if rng.random() < 0.5 else \
            {"name": "gsdk", "is_global_build_dep": True, "is_build_dep": True, "build": {"cmd": ["mksdk > ${out}"], "out": ["gsdk.h"]}}
    second = {"name": "gconfig", "is_global_build_dep": True, "build": {"cmd": ["gen-config > ${out}"], "out": ["gconfig.h"]}}
    second[rng.choice(["depends", "uses"])] = ["gsdk"]
    if rng.random() < 0.4:
        second = {"name": "gconfig", "is_global_build_dep": True, "sources": ["gstart.c"], "depends": ["gsdk"]}
    mods = root.setdefault("modules", [])
    if rng.random() < 0.5:
        mods += [first, second]
    else:
        mods += [second, first]
    apps = [m for k, m, path, d in _modules(p, ("apps",))]
    for a in apps[:2]:
        a["depends"] = list(a.get("depends") or []) + [rng.choice(["gconfig", "gsdk", "gconfig"])]


def same_source_two_spellings(p, rng):
    """one source file compiled by two modules under two spellings of its path (`x.c` and `./x.c`, `d/../x.c`): ninja compares
    canonical paths, so the two object files are ONE output"""
    root = _root(p)
    cands = [m for m in root.get("modules") or [] if "srcdir" not in m and not m.get("download") and not m.get("build")
             and any(isinstance(x, str) and x.endswith(".c") for x in m.get("sources") or [])]
    apps = [a for k, a, path, d in _modules(p, ("apps",))]
    if not cands or not apps:
        return
    m = rng.choice(cands)
    src = next(x for x in m["sources"] if isinstance(x, str) and x.endswith(".c"))
    how = rng.choice(["srcdir-dot", "srcdir-dot", "source-dot", "updown"])
    twin = {"name": m["name"] + "_twin", "sources": [src]}
    if how == "srcdir-dot":
        twin["srcdir"] = rng.choice([".", "./"])
    elif how == "source-dot":
        twin["sources"] = ["./" + src]
    else:
        twin["sources"] = ["tw/../" + src]
    root["modules"].append(twin)
    a = rng.choice(apps)
    a["depends"] = list(a.get("depends") or []) + [m["name"], twin["name"]]


def odd_app_names(p, rng):
    """two copies of an app whose names differ only in `/` vs `_` (or `.` vs `-`, or a non-ASCII letter): names are compared and used
    in paths as they are written"""
    apps = [(a, d) for k, a, path, d in _modules(p, ("apps",)) if a.get("name")]
    if not apps:
        return
    a, d = rng.choice(apps)
    n = a["name"]
    x, y = rng.choice([(n + "/v", n + "_v"), (n + "/v", n + "_v"), (n + ".x", n + "-x"), ("\u00e9" + n, "e" + n), (n + "/", n + "//")][:4])
    for nn in (x, y):
        b = copy.deepcopy(a)
        b["name"] = nn
        d["apps"].append(b)
    if rng.random() < 0.5:
        # ... compiled by a rule that is not shareable: the object directory carries the app's name
        root = _root(p)
        for c in root.get("contexts") or []:
            for r in c.get("rules") or []:
                if r.get("name") == "CC" and r.get("in") == "c" and c.get("name") == "default":
                    r["shareable"] = False
    args = p.setdefault("args", {})
    if args.get("apps") is not None and rng.random() < 0.7:
        args["apps"] = list(args["apps"]) + [x, y]


SHAPES += [("p_odd_app_names", odd_app_names), ("p_same_source_two_spellings", same_source_two_spellings), ("p_uses_removal_marker", uses_removal_marker), ("p_suffix_ext_rules", suffix_ext_rules), ("p_srcdir_dot", srcdir_dot),
           ("p_module_sets_builtin_var", module_sets_builtin_var), ("p_context_prefixed_module", context_prefixed_module),
           ("p_alias_spellings", alias_spellings), ("p_root_context_disables", root_context_disables), ("p_escaped_early_var", escaped_early_var),
           ("p_dup_context_list", dup_context_list), ("p_empty_task_map", empty_task_map), ("p_download_not_build_dep", download_not_build_dep),
           ("p_global_deps_chain", global_deps_chain)]


def bound_provider_backtracking(p, limit=6):
    """laze's resolver tries the providers of a feature one after the other and resolves each candidate's own dependencies before it
    accepts it. When `defaults:` make EVERY module of a file provide a feature AND depend on it, each candidate asks for the feature
    again and the search is factorial in the number of such modules: with ten of them (several shapes add modules to the root file) one
    (builder, app) pair takes 7 s, an eleventh multiplies that by about six, a whole run takes minutes to hours. laze finishes, with the
    right answer — but a run that exceeds the harness's time limit is indistinguishable from a hang (DESIGN §9.3 (j)). Generated projects
    therefore keep that self-feeding pattern to small files: above `limit` modules the defaults keep the `provides` and lose the
    dependency on the provided name."""
    n = sum(1 for _ in _modules(p, ("modules",)))
    if n <= limit:
        return
    for path, d in _all_docs(p):
        dm = (d.get("defaults") or {}).get("module") if isinstance(d.get("defaults"), dict) else None
        if not isinstance(dm, dict):
            continue
        prov = {x for key in ("provides", "provides_unique") for x in (dm.get(key) or []) if isinstance(x, str)}
        if not prov:
            continue
        for key in ("depends", "selects", "uses"):
            if isinstance(dm.get(key), list):
                dm[key] = [x for x in dm[key] if not (isinstance(x, str) and x.lstrip("?") in prov)]


def apply(p, prof, seed, index):
    rng = random.Random(seed * 7919 + index * 31 + 17)
    applied = []
    for knob, f in SHAPES:
        if rng.random() < prof.get(knob, 0.0):
            f(p, random.Random(rng.getrandbits(32)))
            applied.append(knob[2:])
    if applied:
        p["shapes"] = applied
    bound_provider_backtracking(p)
    return p
