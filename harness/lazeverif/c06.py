"""C06 — the generated ninja file is a well-formed build graph."""
import re
from . import common, projgen, projcheck, projrun, ninjaparse

PROF = projgen.profile(p_rule_text_newline=0.05, p_same_source_two_spellings=0.08, n_builders=(2, 4), n_apps=(2, 3), p_rules_override=0.5, p_same_override=0.5, p_always=0.3, p_nonshare=0.25,
                       p_custom_build=0.15, p_download=0.12, p_build_dep=0.25, p_global_build_dep=0.1, p_subdir=0.4,
                       p_tasks=0.05, p_nobindir=0.06, p_cli_builders=0.2, p_cli_apps=0.2)
OBS = ("status", "decision", "loaded", "ninja")


def check_file(chk, p, r, pn):
    bd = "build"
    defined = {}
    for x in pn["rules"]:
        if x["name"] in defined:
            chk.fail_oracle("graph:rule-defined-twice", f"rule {x['name']} is defined twice", {"project": p})
            return
        defined[x["name"]] = x["pos"]
    prod = {}
    for b in pn["builds"]:
        if not b["outs"]:
            # `build: RULE ...`: ninja refuses a build statement that names no output ("expected path")
            chk.fail_oracle("graph:statement-without-output", f"a build statement using rule {b['rule']} names no output", {"project": p})
            return
        if b["rule"] != "phony":
            if b["rule"] not in defined:
                chk.fail_oracle("graph:undefined-rule", f"statement for {b['outs']} uses undefined rule {b['rule']}", {"project": p})
                return
            if defined[b["rule"]] > b["pos"]:
                chk.fail_oracle("graph:rule-after-use", f"rule {b['rule']} is defined after its first use", {"project": p})
                return
        for o in b["outs"]:
            o = ninjaparse.canon(o)           # ninja compares canonical paths: `objects/./x.o` and `objects/x.o` are one output
            if o in prod:
                a = prod[o]
                # what differs between the two statements tells the findings apart
                if a["rule"] == b["rule"] and a["inputs"] == b["inputs"] and set(a["order_only"]) ^ set(b["order_only"]) == {"ALWAYS"}:
                    sig = "graph:duplicate-output:always-flag"
                elif a["rule"].startswith("LINK_") or b["rule"].startswith("LINK_") or a["rule"].startswith("POST_LINK_"):
                    sig = "graph:duplicate-output:outfile-collision"
                elif a["inputs"] == b["inputs"] and len(a["inputs"]) == 1 and a["rule"] != b["rule"] and not re.search(r"\d{10,}", o):
                    sig = "graph:duplicate-output:nonshareable-same-source"
                elif a["rule"].startswith("BUILD_") and b["rule"].startswith("BUILD_"):
                    sig = "graph:duplicate-output:custom-out-collision"
                elif o.startswith("build/dl/") and {a["rule"].split("_")[0], b["rule"].split("_")[0]} <= {"phony", "GIT"}:
                    sig = "graph:duplicate-output:download-dir-clash"
                else:
                    sig = "graph:duplicate-output"
                chk.fail_oracle(sig, f"{o} is produced by two statements ({a['rule']} and {b['rule']})", {"project": p, "output": o})
                return
            prod[o] = b
    for b in projcheck.built(r):
        if ninjaparse.canon(b["outfile"]) not in prod:
            chk.fail_oracle("graph:outfile-not-a-target", f"{b['builder']}/{b['app']}: {b['outfile']} is not produced by any statement", {"project": p})
            return
    # paths chosen by laze lie under the build directory. A downloaded module with an explicit `srcdir:` is downloaded where the USER
    # said (its tag file is `<srcdir>/.laze-downloaded`): that directory is not laze's choice
    user_dl_dirs = [str(m["srcdir"]).rstrip("/") for kind, m, path in projcheck.yaml_modules(p)
                    if isinstance(m, dict) and m.get("download") and isinstance(m.get("srcdir"), str)]
    for b in pn["builds"]:
        rn = b["rule"]
        is_compile = rn != "phony" and not rn.startswith(("LINK_", "POST_LINK_", "BUILD_", "GIT_DOWNLOAD_", "GIT_PATCH_"))
        is_dl = rn.startswith(("GIT_DOWNLOAD_", "GIT_PATCH_"))
        if is_compile or is_dl:
            for o in b["outs"]:
                want = bd + ("/objects/" if is_compile else "/dl/")
                if not o.startswith(want) or "/../" in o:
                    src = b["inputs"][0] if b["inputs"] else ""
                    if is_compile and (src.startswith("/") or ".." in src.split("/")):
                        continue          # not a plain relative source: outside the statement of C06
                    if is_dl and any(o.startswith(d + "/") for d in user_dl_dirs):
                        continue
                    chk.fail_oracle("graph:outside-build-dir", f"{o} (rule {rn}) is not under {want}", {"project": p})
                    return


def oracle(chk, p, r, m):
    if projrun.impl_status(r) != "ok" or not r["ninja"]:
        return
    try:
        pn = ninjaparse.parse(r["ninja"])
    except ninjaparse.ParseError as e:
        chk.fail_oracle("ninja:unparsable", str(e), {"project": p})
        return
    chk.count("statements", len(pn["builds"]))
    check_file(chk, p, r, pn)


def nontrivial(chk, p, r, m):
    return len(projcheck.built(r)) >= 2


def run(chk):
    n = 900 if chk.tier == "quick" else 8000
    chk.rule = ("random multi-builder/multi-app projects (overridden rules incl. identical commands with different `always`, non-shareable rules, "
                "custom builds, downloads, build deps, some without a per-build bindir) through the real CLI; whole ninja file compared with the "
                "model's; oracle: strict parser for the ninja subset laze emits, then duplicate outputs, duplicate/late/undefined rules, missing "
                "targets, laze-chosen paths outside the build dir; non-trivial = >=2 configured builds in one file; distinct by project hash")
    from . import grafts
    k = 12 if chk.tier == "quick" else 300
    extra = [g(projgen.gen_project(chk.seed + 660, i, PROF), i) for i in range(k) for g in (grafts.marker_build_dep, grafts.per_builder_generated)]
    projcheck.campaign(chk, PROF, n, OBS, oracle, nontrivial, extra_projects=extra)
    chk.assumptions = ["no ninja binary on this image: 'loadable by ninja' is decided by a strict parser for the subset of ninja syntax laze emits",
                       "paths without spaces, ':' or '$' (the generator's path alphabet)"]
    return chk.finish()


def replay(chk, path):
    return projcheck.replay_project(chk, path, OBS, oracle)
