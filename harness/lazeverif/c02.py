"""C02 — conflicting, disabled or uniquely-provided modules never coexist."""
from . import common, projgen, projcheck, projrun
from .c01 import features

PROF = projgen.profile(p_dep=0.7, p_soft=0.45, p_ifthen=0.25, p_provides=0.5, p_unique=0.35, p_conflicts=0.45,
                       p_ctx_select=0.3, p_ctx_disable=0.35, p_cli_select=0.45, p_cli_disable=0.45,
                       p_tasks=0.15, p_custom_build=0.03, p_download=0.03, p_varopts=0.05, p_hard_missing=0.0)
OBS = ("status", "decision", "modules", "loaded")


def yaml_unique(p):
    """(module name, context) -> provides_unique list, from the project files (not from laze's loaded view)"""
    out = {}
    for kind, m, path in projcheck.yaml_modules(p):
        u = m.get("provides_unique")
        if not u:
            continue
        ctx = m.get("context", "default")
        for c in (ctx if isinstance(ctx, list) else [ctx]):
            out[(m["name"], c)] = list(u)
    for docs in p["files"].values():
        for d in docs:
            for c in (d.get("contexts") or []) + (d.get("builders") or []):
                if c.get("provides_unique"):
                    out[("context::" + c["name"], c["name"])] = list(c["provides_unique"])
    return out


def yaml_disables(p, chain):
    out = []
    for docs in p["files"].values():
        for d in docs:
            for c in (d.get("contexts") or []) + (d.get("builders") or []):
                if c["name"] in chain:
                    out += c.get("disables") or []
    return out


def violations(p, b):
    mods = b["modules"]
    names = [x["name"] for x in mods]
    chain = None
    for kv in b["global_flat"]:
        if kv[0] == "contexts":
            chain = kv[1].split(" ")
    disabled = set(yaml_disables(p, chain or [])) | set(p.get("args", {}).get("disable") or [])
    uniq = yaml_unique(p)
    bad = []
    for x in mods:
        if x["name"] in disabled:
            bad.append(("disabled-selected", x["name"]))
        for f in x.get("provides") or []:
            if f in disabled:
                bad.append(("provides-disabled", x["name"], f))
    for x in mods:
        cx = set(x.get("conflicts") or [])
        ux = set(uniq.get((x["name"], x["context"]), []))
        for y in mods:
            if y is x:
                continue
            py = set(y.get("provides") or [])
            if y["name"] in cx:
                bad.append(("conflict-pair", x["name"], y["name"]))
            if cx & py:
                bad.append(("conflict-provided", x["name"], y["name"], sorted(cx & py)))
            if ux & py:
                bad.append(("unique-two-providers", x["name"], y["name"], sorted(ux & py)))
    return bad


def oracle(chk, p, r, m):
    if projrun.impl_status(r) != "ok":
        return
    for b in r["dump"]:
        if b["decision"] != "built":
            continue
        bad = violations(p, b)
        for f in features(b):
            chk.count("feature:" + f)
        if bad:
            chk.fail_oracle("excl:" + bad[0][0], f"build {b['builder']}/{b['app']}: {bad[0]}",
                            {"project": p, "build": [b["builder"], b["app"]], "violations": bad[:4]})


def nontrivial(chk, p, r, m):
    for b in r.get("dump", []):
        if b["decision"] == "built":
            f = features(b)
            if "conflicts" in f or "disabled" in f:
                return True
    return False


def run(chk):
    n = 1200 if chk.tier == "quick" else 12000
    chk.rule = ("random projects with raised conflict/provides_unique/disable density through the real CLI; compared with the model "
                "on decision + ordered module list; oracle: every pair of selected modules checked against conflicts/provides from "
                "the dump and disables/provides_unique from the project files; non-trivial = a configured build has conflicts or "
                "an initial disabled set; distinct by project hash")
    projcheck.campaign(chk, PROF, n, OBS, oracle, nontrivial)
    chk.assumptions = ["pair oracle uses the dumped module list; disabled names and provides_unique are read from the YAML, not from laze"]
    return chk.finish()


def replay(chk, path):
    return projcheck.replay_project(chk, path, OBS, oracle)
