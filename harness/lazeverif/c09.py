"""C09 — generation is deterministic."""
import hashlib, json, os, shutil, subprocess, tempfile
from . import common, projgen, projcheck, projrun

PROF = projgen.profile(n_builders=(2, 4), n_apps=(2, 3), n_mods=(4, 9), p_ifthen=0.45, p_optsrc=0.45, p_tasks=0.5, p_cli_define=0.6,
                       p_varopts=0.3, p_env=0.5, p_custom_build=0.08, p_download=0.05)
OBS = ("status", "decision", "modules", "loaded", "global_env", "module_env", "outfile", "tasks", "ninja")
THREADS = ["1", "2", "3", "5", "8", "16"]


def digest(r, info):
    h = hashlib.sha256()
    h.update((r["ninja"] or "<none>").encode())
    h.update(b"\0")
    h.update((info or "<none>").encode())
    return h.hexdigest()[:20]


def run_many(job):
    """K runs of one project: fresh build directory for every even run, the SAME directory re-used by the odd run that follows it
    (the cache is disabled by --info-export, so every run regenerates: what an earlier run left behind — symlinks of imports,
    downloaded directories, the previous ninja file — must not change what the next one writes)"""
    p, k = job
    os.makedirs(projrun.SCRATCH, exist_ok=True)
    out = []
    # same absolute path for every run: project-root is part of the output
    root = os.path.join(projrun.SCRATCH, "det-" + projcheck.phash(p))
    try:
        for i in range(k):
            reuse = i % 2 == 1
            if not reuse:
                if os.path.exists(root):
                    shutil.rmtree(root, ignore_errors=True)
                os.makedirs(root)
                projrun.write_project(root, p["files"])
            else:
                for f in ("info.json",):
                    if os.path.exists(os.path.join(root, f)):
                        os.remove(os.path.join(root, f))
            d = root
            r = projrun.run_laze(d, p.get("args", {}), extra_env={"RAYON_NUM_THREADS": THREADS[i % len(THREADS)]},
                                 more=("-i", "info.json"))
            r["dump"] = projrun.read_dump(d)
            nf = os.path.join(d, "build", "build-global.ninja")
            r["ninja"] = open(nf).read() if os.path.exists(nf) else None
            inf = os.path.join(d, "info.json")
            info = open(inf).read() if os.path.exists(inf) else None
            tuples = sorted((b["builder"], b["app"], b["decision"]) for b in r["dump"])
            tasks = sorted((b["builder"], b["app"], sorted(t[0] for t in b.get("tasks", []))) for b in r["dump"] if b["decision"] == "built")
            out.append({"status": projrun.impl_status(r), "digest": digest(r, info), "tuples": tuples, "tasks": tasks,
                        "threads": THREADS[i % len(THREADS)], "reused_build_dir": reuse, "stderr": (r["stderr"] or "")[-200:]})
    finally:
        shutil.rmtree(root, ignore_errors=True)
    return (p, out)


def worker(jobs):
    return [run_many(j) for j in jobs]


def nested_downloads(p, i):
    """graft download directories that contain each other, and a module whose sources live inside the innermost
    (generate.rs looks the source directory up among the download directories: exact, else the first that contains it)"""
    import copy, random
    rng = random.Random(i)
    p = copy.deepcopy(p)
    root = p["files"]["laze-project.yml"][0]
    depth = rng.randint(2, 4)
    names, path = [], "nest"
    mods = root.setdefault("modules", [])
    for k in range(depth):
        name = f"dln{k}"
        mods.append({"name": name, "download": {"git": {"url": f"https://example.invalid/{name}.git", "commit": "0123abcd"}, "dldir": path},
                     **({"depends": [names[-1]]} if names and rng.random() < 0.7 else {})})
        names.append(name)
        path += f"/in{k}"
    order = list(names)
    rng.shuffle(order)
    inner = "build/dl/nest" + "".join(f"/in{k}" for k in range(depth - 1)) + "/src"
    mods.append({"name": "glue", "srcdir": inner, "sources": ["g.c", "h.c"], "depends": order})
    for kind, m, path_ in projcheck.yaml_modules(p):
        if kind == "apps":
            m["depends"] = list(m.get("depends") or []) + ["glue"]
    return p


def local_import(p, i):
    """graft a local import (`imports: [{path: vendor/ext<i>, symlink: ..}]`): a directory with its own lazefile whose module the apps
    depend on. Imports are not part of the model; the repeated-run oracle applies (a symlinked import is reached through
    build/imports/<name> on every run, first or not)"""
    import copy, random
    rng = random.Random(i * 13 + 5)
    p = copy.deepcopy(p)
    root = p["files"]["laze-project.yml"][0]
    d = f"vendor/ext{i % 3}"
    lazefile = rng.choice(["laze-lib.yml", "laze.yml"])
    p["files"][f"{d}/{lazefile}"] = [{"modules": [{"name": "extmod", "sources": ["ext.c", "sub/ext2.c"],
                                                    "env": {"export": {"CFLAGS": ["-I${relpath}/include", "-DROOT=${root}"]}}},
                                                   {"sources": ["nameless.c"]}]}]
    imp = {"path": d, "symlink": rng.random() < 0.75}
    if rng.random() < 0.3:
        imp["name"] = "extlib"
    if rng.random() < 0.2:
        imp["dldir"] = "extdir"
    root["imports"] = [imp]
    for kind, m, path_ in projcheck.yaml_modules(p):
        if kind == "apps":
            m["depends"] = list(m.get("depends") or []) + ["extmod"]
    p["_imports"] = True
    return p


def multikey(p):
    n = 0
    for kind, m, path in projcheck.yaml_modules(p):
        for key in ("depends", "selects", "sources"):
            for e in m.get(key) or []:
                if isinstance(e, dict) and len(e) >= 2:
                    n += 1
        if len(m.get("tasks") or {}) >= 2:
            n += 1
    if len(p.get("args", {}).get("define") or []) >= 2:
        n += 1
    return n


def run(chk):
    n, k = (40, 6) if chk.tier == "quick" else (500, 24)
    chk.rule = ("random projects (YAML maps with several keys in depends/selects/sources, several tasks, several -D, >=2 builders x >=2 apps) "
                "generated K times in fresh processes with RAYON_NUM_THREADS in {1,2,3,5,8,16}: sha256 of ninja file + info-export JSON and the "
                "list of configured builds must be equal across runs; separately the model's single prediction is compared with one run; "
                "non-trivial = the project has a multi-key YAML map / >=2 tasks / >=2 -D and >=2 configured builds; distinct by project hash")
    # translator obligation: inventory of unordered containers ⊆ reviewed table (closed by `decide` in Theorems/C09.lean)
    chk.extra["translator_obligations"] = ["Laze.C09.containers_reviewed (Generated.containers ⊆ reviewed)"]
    # (1) correspondence with the model (document order semantics)
    projcheck.campaign(chk, PROF, 150 if chk.tier == "quick" else 4000, OBS, None, lambda c, p, r, m: False, label="corr:",
                       extra_projects=[nested_downloads(projgen.gen_project(chk.seed + 950, i, PROF), i) for i in range(12 if chk.tier == "quick" else 200)])
    # (2) repeated runs
    jobs = [(projgen.gen_project(chk.seed + 900, i, PROF), k) for i in range(n)]
    jobs += [(nested_downloads(projgen.gen_project(chk.seed + 950, i, PROF), i), 2 * k) for i in range(max(4, n // 8))]
    jobs += [(local_import(projgen.gen_project(chk.seed + 970, i, PROF), i), k) for i in range(max(6, n // 6))]
    for p, runs in common.parallel_map(worker, jobs, nproc=8):
        chk.evaluations += len(runs)
        chk.count("repeated-runs", len(runs))
        chk.count("repeated-runs:in-a-used-build-dir", sum(1 for r in runs if r.get("reused_build_dir")))
        if p.get("_imports"):
            chk.count("projects-with-local-import:" + "/".join(sorted({r["status"] for r in runs})))
        ds = {r["digest"] for r in runs}
        ts = {json.dumps(r["tuples"]) for r in runs}
        ss = {r["status"] for r in runs}
        built = [t for t in runs[0]["tuples"] if t[2] == "built"]
        if multikey(p) and len(built) >= 2:
            chk.nontrivial.add(projcheck.phash(p))
            if len(chk.samples) < 2:
                chk.samples.append({"project": p, "runs": [(r["threads"], r["digest"]) for r in runs]})
        if len(ss) > 1:
            # error vs panic may depend on scheduling when several builds fail; ok vs not-ok may not
            if "ok" in ss:
                chk.fail_oracle("determinism:status", f"exit status differs between identical runs: {sorted(ss)}", {"project": p, "runs": runs})
            continue
        if len(ds) > 1:
            chk.fail_oracle("determinism:output-bytes", f"{len(ds)} different ninja/info outputs in {len(runs)} identical runs", {"project": p, "runs": runs})
        elif len(ts) > 1 and ss == {"ok"}:
            chk.fail_oracle("determinism:build-set", "set of reported builds differs between identical runs", {"project": p, "runs": runs})
    # (3) a tree with a local import, edited between two runs in one build directory: the run after the edit must write what a run
    # with an empty build directory writes for the same tree and command line (imports are outside the model: oracle only)
    from . import c08
    for job, out in common.parallel_map(c08.import_worker, [(chk.seed + 77, i) for i in range(6 if chk.tier == "quick" else 120)]):
        c08.judge_import(chk, job, out, prefix="determinism")
    chk.assumptions = ["schedules and hash seeds are sampled (K fresh processes, 6 thread counts), not enumerated",
                       "rayon's indexed collect preserves input order; RandomState seeds differ per process (std behaviour)"]
    return chk.finish()


def replay(chk, path):
    r0 = json.load(open(path))
    p = r0["case"]["project"]
    _, runs = run_many((p, 12))
    for r in runs:
        print(r["threads"], r["status"], r["digest"])
    if len({r["digest"] for r in runs}) > 1:
        chk.fail_oracle("determinism:output-bytes", "outputs differ", {"project": p, "runs": runs})
    chk.note_case({"project": p}, True)
    return chk.finish()
