"""Shared machinery of the laze verification checks: builds, line-protocol runners,
verdict logic, evidence writer."""
import hashlib, json, os, random, re, shutil, subprocess, sys, tempfile, time

VERIF = os.path.dirname(os.path.dirname(os.path.dirname(os.path.abspath(__file__))))
REPO = os.environ.get("LAZE_REPO", "/repo")
LEAN = os.path.join(VERIF, "lean")
BUILD = os.path.join(VERIF, ".build")
LAZE = os.path.join(BUILD, "target", "release", "laze")
MODEL = os.environ.get("LAZE_MODEL_BIN", os.path.join(LEAN, ".lake", "build", "bin", "lazemodel"))
NCPU = os.cpu_count() or 4

ALLOWED_AXIOMS = {"propext", "Classical.choice", "Quot.sound"}
TRUSTED_BASE = [
    "Lean 4.33.0 kernel; axioms allowed: propext, Classical.choice, Quot.sound (audited with #print axioms on every run)",
    "Lean compiler for the executable model driver (lean_exe lazemodel); theorems are about the same definitions",
    "correspondence harness /verif/harness (generators, canonicalisers) and the in-binary oracle /repo/src/verif.rs",
    "the model is hand-written (lean/LazeModel/Model); it is tied to /repo by differential execution on every run",
]


def log(*a):
    print(*a, file=sys.stderr, flush=True)


def sh(cmd, cwd=None, env=None, timeout=None, input=None):
    e = dict(os.environ)
    if env:
        e.update(env)
    p = subprocess.run(cmd, cwd=cwd, env=e, timeout=timeout, input=input,
                       stdout=subprocess.PIPE, stderr=subprocess.STDOUT, text=True)
    return p.returncode, p.stdout


# ------------------------------------------------------------------ builds

def build_laze():
    """cargo build of /repo's working tree with the hook cfg. Returns (ok, log)."""
    t = time.time()
    rc, out = sh([os.path.join(VERIF, "build_laze.sh")], timeout=1800)
    return rc == 0, out, time.time() - t


def strip_lean_comments(src):
    # remove /- ... -/ (nested) and -- comments
    out, i, depth = [], 0, 0
    while i < len(src):
        if src.startswith("/-", i):
            depth += 1; i += 2; continue
        if depth and src.startswith("-/", i):
            depth -= 1; i += 2; continue
        if depth:
            i += 1; continue
        if src.startswith("--", i):
            while i < len(src) and src[i] != "\n":
                i += 1
            continue
        out.append(src[i]); i += 1
    return "".join(out)


FORBIDDEN = re.compile(r"\b(sorry|admit|native_decide|bv_decide|implemented_by|unsafe)\b|^\s*axiom\s|maxHeartbeats\s+0", re.M)


def lean_files_of(module):
    """transitive LazeModel imports of a module (by reading import lines)"""
    seen, todo = [], [module]
    while todo:
        m = todo.pop()
        if m in seen:
            continue
        p = os.path.join(LEAN, *m.split(".")) + ".lean"
        if not os.path.exists(p):
            continue
        seen.append(m)
        for line in open(p):
            mm = re.match(r"\s*import\s+(LazeModel[\w.]*)", line)
            if mm:
                todo.append(mm.group(1))
    return seen


def theorems_in(module):
    p = os.path.join(LEAN, *module.split(".")) + ".lean"
    src = strip_lean_comments(open(p).read())
    ns = []
    names = []
    for line in src.splitlines():
        m = re.match(r"\s*namespace\s+([\w.]+)", line)
        if m:
            ns.append(m.group(1)); continue
        m = re.match(r"\s*end\s+([\w.]+)\s*$", line)
        if m and ns and ns[-1] == m.group(1):
            ns.pop(); continue
        m = re.match(r"\s*(?:@\[[^\]]*\]\s*)?(?:protected\s+)?theorem\s+([^\s\(\{\[:]+)", line)  # private helpers are audited through their users
        if m:
            names.append(".".join(ns + [m.group(1)]))
    return names


def theorem_modules(prop):
    """LazeModel.Theorems.<prop> and every LazeModel.Theorems.<prop>_*  (split theorem files)"""
    import glob
    mods = []
    for f in sorted(glob.glob(os.path.join(LEAN, "LazeModel", "Theorems", prop + "*.lean"))):
        b = os.path.basename(f)[:-5]
        if b == prop or b.startswith(prop + "_"):
            mods.append("LazeModel.Theorems." + b)
    return mods


def run_translators():
    """regenerate lean/LazeModel/Generated/*.lean from /repo/src (every run)"""
    problems = []
    import glob
    for tp in sorted(glob.glob(os.path.join(VERIF, "translators", "*.py"))):
        t = os.path.basename(tp)
        if True:
            rc, out = sh([sys.executable, tp], timeout=300)
            if rc != 0:
                problems.append(f"translator {t} failed: {out[-500:]}")
    return problems


def build_proofs(prop, extra_modules=()):
    """lake build of the theorem module(s) of `prop` and the driver; forbidden-token scan;
    axiom audit. Returns dict(ok, obligations, discharged, axioms, problems, log)."""
    tp = run_translators()
    mods = theorem_modules(prop)
    res = {"ok": True, "obligations": 0, "discharged": 0, "axioms": {}, "problems": [], "log": "",
           "theorems": []}
    if tp:
        res["ok"] = False
        res["problems"] += tp
    if not mods:
        res["ok"] = False
        res["problems"].append(f"no theorem module LazeModel/Theorems/{prop}.lean")
        mods = []
    t = time.time()
    rc, out = sh(["lake", "build", *mods, "lazemodel", *extra_modules], cwd=LEAN, timeout=3000)
    res["log"] = out[-4000:]
    res["lake_s"] = round(time.time() - t, 1)
    thms = [th for m in mods for th in theorems_in(m)]
    res["theorems"] = thms
    res["obligations"] = len(thms)
    if rc != 0:
        res["ok"] = False
        res["problems"].append("lake build failed: " + "; ".join(
            l for l in out.splitlines() if "error" in l)[:1500])
        # is the driver still usable?
        rc2, _ = sh(["lake", "build", "lazemodel"], cwd=LEAN, timeout=3000)
        res["driver_ok"] = rc2 == 0
        return res
    res["driver_ok"] = True
    files = []
    for mod in mods:
        for m in lean_files_of(mod):
            if m not in files:
                files.append(m)
    for m in files:
        src = strip_lean_comments(open(os.path.join(LEAN, *m.split(".")) + ".lean").read())
        hit = FORBIDDEN.search(src)
        if hit:
            res["ok"] = False
            res["problems"].append(f"forbidden token {hit.group(0).strip()!r} in {m}")
    # axiom audit
    os.makedirs(BUILD, exist_ok=True)
    audit = os.path.join(BUILD, f"Audit_{prop}.lean")
    with open(audit, "w") as f:
        for mod in mods:
            f.write(f"import {mod}\n")
        for th in thms:
            f.write(f"#print axioms {th}\n")
    rc, out = sh(["lake", "env", "lean", audit], cwd=LEAN, timeout=1200)
    if rc != 0:
        res["ok"] = False
        res["problems"].append("axiom audit failed: " + out[-800:])
        return res
    cur = None
    text = out.replace("\n  ", " ")
    for th in thms:
        m = re.search(r"'" + re.escape(th) + r"' (does not depend on any axioms|depends on axioms: \[([^\]]*)\])", text)
        if not m:
            res["ok"] = False
            res["problems"].append(f"no axiom report for {th}")
            continue
        axs = [a.strip() for a in (m.group(2) or "").replace("\n", " ").split(",") if a.strip()]
        res["axioms"][th] = axs
        bad = [a for a in axs if a not in ALLOWED_AXIOMS]
        if bad:
            res["ok"] = False
            res["problems"].append(f"{th} depends on disallowed axioms {bad}")
        else:
            res["discharged"] += 1
    return res


# ------------------------------------------------------------------ line protocol

def run_lines(argv, reqs, env=None, timeout=600):
    """Feed JSON requests (one per line) to a fresh process; returns list of answers
    (None where the process died before answering). Restarts after a crash so that one
    crashing request does not hide the others."""
    answers = [None] * len(reqs)
    start = 0
    e = dict(os.environ)
    if env:
        e.update(env)
    while start < len(reqs):
        data = "".join(json.dumps(r) + "\n" for r in reqs[start:])
        try:
            p = subprocess.run(argv, input=data, env=e, stdout=subprocess.PIPE,
                               stderr=subprocess.DEVNULL, text=True, timeout=timeout)
            lines = p.stdout.splitlines()
            rc = p.returncode
        except subprocess.TimeoutExpired as ex:
            lines = (ex.stdout or b"").decode("utf-8", "replace").splitlines() if isinstance(ex.stdout, bytes) else (ex.stdout or "").splitlines()
            rc = "timeout"
        n = 0
        for l in lines:
            if start + n >= len(reqs):
                break
            try:
                answers[start + n] = json.loads(l)
            except Exception:
                answers[start + n] = {"bad": l[:200]}
            n += 1
        if start + n >= len(reqs):
            break
        # the request at start+n killed the process (abort, stack overflow, hang)
        answers[start + n] = {"crash": str(rc)}
        start = start + n + 1
    return answers


def oracle(reqs, timeout=600):
    return run_lines([LAZE], reqs, env={"LAZE_VERIF_ORACLE": "1"}, timeout=timeout)


def model(reqs, timeout=600):
    return run_lines([MODEL], reqs, timeout=timeout)


def parallel_map(fn, items, nproc=None):
    """fork-based map over chunks; fn(list) -> list"""
    import multiprocessing as mp
    nproc = nproc or NCPU
    if len(items) < 64 or nproc == 1:
        return fn(items)
    k = (len(items) + nproc - 1) // nproc
    chunks = [items[i:i + k] for i in range(0, len(items), k)]
    with mp.get_context("fork").Pool(len(chunks)) as pool:
        parts = pool.map(fn, chunks)
    return [x for p in parts for x in p]


# ------------------------------------------------------------------ known findings

def load_known():
    p = os.path.join(VERIF, "known_findings.json")
    if not os.path.exists(p):
        return {"known": [], "fixed": []}
    return json.load(open(p))


def match_known(prop, signature):
    for k in load_known().get("known", []):
        if k.get("property") == prop and k.get("signature") == signature:
            return k
    return None


def load_corpus(prop):
    """minimised past failures / known findings, run first on every check: corpus/<prop>/*.json"""
    import glob
    out = []
    for f in sorted(glob.glob(os.path.join(VERIF, "corpus", prop, "*.json"))):
        try:
            c = json.load(open(f))
            c["_corpus_file"] = os.path.basename(f)
            out.append(c)
        except Exception as e:
            log(f"bad corpus file {f}: {e}")
    return out


# ------------------------------------------------------------------ check context / verdict

class Check:
    def __init__(self, prop, tier, seed, level="proof"):
        self.prop, self.tier, self.seed, self.level = prop, tier, seed, level
        self.t0 = time.time()
        self.evaluations = 0
        self.nontrivial = set()
        self.samples = []
        self.rule = ""
        self.dist = {}
        self.oracle_fail = []     # (signature, what, case)
        self.disagree = []        # (what, case)
        self.disagreements_checked = 0
        self.proof = None
        self.transl_problems = []
        self.assumptions = []
        self.extra = {}
        self.search_note = ""

    def count(self, key, n=1):
        self.dist[key] = self.dist.get(key, 0) + n

    def case_hash(self, obj):
        return hashlib.sha256(json.dumps(obj, sort_keys=True).encode()).hexdigest()[:16]

    def note_case(self, case, nontrivial):
        self.evaluations += 1
        if nontrivial:
            self.nontrivial.add(self.case_hash(case))
        if len(self.samples) < 3 and nontrivial:
            self.samples.append(case)

    def fail_oracle(self, signature, what, case):
        self.oracle_fail.append((signature, what, case))

    def fail_disagree(self, what, case):
        self.disagree.append((what, case))

    # -- replay files
    def write_replay(self, name, obj):
        d = os.path.join(VERIF, "replays")
        os.makedirs(d, exist_ok=True)
        p = os.path.join(d, f"{self.prop}_{name}.json")
        json.dump(obj, open(p, "w"), indent=1, sort_keys=True, default=str)
        return p

    def finish(self, search=None):
        """verdict logic of DESIGN §5; writes evidence; returns exit code"""
        violations = 0
        lines = []
        seen_sig = set()
        unlisted = []
        for sig, what, case in self.oracle_fail:
            if sig in seen_sig:
                continue
            seen_sig.add(sig)
            k = match_known(self.prop, sig)
            if k:
                lines.append(f"KNOWN-FINDING: property={self.prop} {k.get('what', what)}")
                self.write_replay("known_" + re.sub(r"\W+", "_", sig)[:60],
                                  {"property": self.prop, "kind": "known-finding", "signature": sig, "what": what, "case": case})
            else:
                unlisted.append((sig, what, case))
        for sig, what, case in unlisted[:5]:
            p = self.write_replay("violation_" + re.sub(r"\W+", "_", sig)[:60],
                                  {"property": self.prop, "kind": "oracle", "signature": sig, "what": what, "case": case})
            lines.append(f"VIOLATION property={self.prop} replay={p}")
            violations += 1
        broken = []
        if self.proof is not None and not self.proof["ok"]:
            broken.append("proof: " + "; ".join(self.proof["problems"]))
        if self.transl_problems:
            broken.append("translator obligation: " + "; ".join(self.transl_problems))
        if self.disagree:
            broken.append(f"correspondence: {len(self.disagree)} disagreement(s), first: {self.disagree[0][0]}")
        if broken and not unlisted:
            found = None
            if search is not None:
                found = search()
            if found:
                sig, what, case = found
                if match_known(self.prop, sig):
                    found = None
                else:
                    p = self.write_replay("violation_" + re.sub(r"\W+", "_", sig)[:60],
                                          {"property": self.prop, "kind": "oracle-after-search", "signature": sig,
                                           "what": what, "case": case, "broken": broken})
                    lines.append(f"VIOLATION property={self.prop} replay={p}")
                    violations += 1
            if not found:
                p = self.write_replay("unproved", {
                    "property": self.prop, "kind": "no-failing-input-found", "broken": broken,
                    "smallest_disagreement": (self.disagree[0] if self.disagree else None),
                    "proof_problems": (self.proof or {}).get("problems"),
                    "search": self.search_note})
                lines.append(f"VIOLATION property={self.prop} replay={p} no-failing-input-found")
                violations += 1
        wall = round(time.time() - self.t0, 1)
        pr = self.proof or {"obligations": 0, "discharged": 0, "axioms": {}, "theorems": []}
        cov = {
            "obligations": pr["obligations"] + len(self.extra.get("translator_obligations", [])),
            "discharged": pr["discharged"] + (0 if self.transl_problems else len(self.extra.get("translator_obligations", []))),
            "checker_cmd": f"cd /verif/lean && lake build LazeModel.Theorems.{self.prop}[_*] && lake env lean /verif/.build/Audit_{self.prop}.lean  (#print axioms of every theorem)",
            "trusted_base": TRUSTED_BASE,
            "theorems": pr.get("theorems", []),
            "axioms": pr.get("axioms", {}),
            "evaluations": self.evaluations,
            "distinct_nontrivial": len(self.nontrivial),
            "rule": self.rule,
            "samples": self.samples[:3] or [{"note": "no non-trivial sample"}],
            "disagreements_checked": self.disagreements_checked,
            "disagreements": len(self.disagree),
            "distribution": self.dist,
        }
        cov.update({k: v for k, v in self.extra.items()})
        ev = {"property_id": self.prop, "tier": self.tier, "seed": self.seed, "level": self.level,
              "coverage": cov, "assumptions": self.assumptions, "wall_s": wall, "violations": violations}
        os.makedirs(os.path.join(VERIF, "evidence"), exist_ok=True)
        json.dump(ev, open(os.path.join(VERIF, "evidence", f"{self.prop}.json"), "w"), indent=1, default=str)
        for l in lines:
            print(l)
        print(f"{self.prop} {self.tier}: {self.evaluations} cases, {len(self.nontrivial)} distinct non-trivial, "
              f"{pr['discharged']}/{pr['obligations']} theorems, {len(self.disagree)} disagreements, "
              f"{len(self.oracle_fail)} oracle failures, {violations} violations, {wall}s")
        sys.stdout.flush()
        return 1 if violations else 0
