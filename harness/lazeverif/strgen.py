"""Grammar-based string / variable-map generator for C13, C14."""
import random

KEYS = ["A", "B", "C", "FOO", "x-y", "é", "K1"]
MULTI = ["é", "ß", "€", "日", "𝄞", "ñ"]
LITS = ["a", "b", " ", "x", "-", "_", "0", "1", "+", "*", "<", "=", "\"", "'", ",", ".", "/"]
MARK = ["$", "{", "}", "(", ")", "\\", "$$", "${", "$(", "\\${", "$$("]
EXPRS = ["1+2", "2*3", "1<2", "max(1,2)", "\"a\"+\"b\"", "1+", "(1+2)*3", "true && false", "min(4,2)+1",
         "10/2", "1 == 1", "foo", "\"x\"", "3-5", "2^3", "if(true,1,2)", "len(\"abc\")"]


def gen_piece(rng, depth=0):
    r = rng.random()
    if r < 0.25:
        return rng.choice(LITS) * rng.randint(1, 3)
    if r < 0.40:
        return "${" + rng.choice(KEYS) + "}"
    if r < 0.48:
        return "\\${" + rng.choice(KEYS) + "}"
    if r < 0.58:
        e = rng.choice(EXPRS)
        if depth < 2 and rng.random() < 0.3:
            e = e + gen_piece(rng, depth + 1)
        return "$(" + e + ")"
    if r < 0.63:
        return "$$(" + rng.choice(EXPRS) + ")"
    if r < 0.75:
        return rng.choice(MULTI)
    if r < 0.90:
        return rng.choice(MARK)
    # multi-byte adjacent to a marker
    m = rng.choice(MULTI)
    k = rng.choice(["${" + rng.choice(KEYS) + "}", "$(" + rng.choice(EXPRS) + ")", "\\${A}", "$", "{", "(", "\\"])
    return m + k if rng.random() < 0.5 else k + m


def gen_string(rng, maxlen=6):
    return "".join(gen_piece(rng) for _ in range(rng.randint(0, maxlen)))


def gen_plain(rng, maxlen=6):
    """no `${` and no `$(`"""
    while True:
        s = "".join(rng.choice(LITS + MULTI + ["$", "{", "}", "(", ")", "\\", "$$"]) for _ in range(rng.randint(0, maxlen)))
        if "${" not in s and "$(" not in s:
            return s


def gen_vars(rng):
    """variable map as list of pairs with distinct keys; sometimes cyclic"""
    keys = rng.sample(KEYS, rng.randint(0, len(KEYS)))
    vs = []
    for k in keys:
        r = rng.random()
        if r < 0.15:
            v = "${" + k + "}"                      # self reference
        elif r < 0.35 and len(keys) > 1:
            v = gen_plain(rng, 2) + "${" + rng.choice(keys) + "}" + gen_plain(rng, 2)   # possibly cyclic chain
        elif r < 0.6:
            v = gen_string(rng, 3)
        else:
            v = gen_plain(rng, 4)
        vs.append([k, v])
    return vs
