"""C04 — variables reach commands with the documented layer precedence."""
import json
from . import common, projgen, projcheck, projrun

PROF = projgen.profile(n_ctx=(2, 4), p_env=0.6, p_cli_define=0.6, p_varopts=0.15, p_tasks=0.15, p_custom_build=0.03, p_download=0.03,
                       p_notify_all=0.1, p_defaults=0.3, p_provides=0.35)
OBS = ("status", "decision", "modules", "loaded", "global_env", "module_env", "tasks", "ninja")


def merge_key(a, b):
    if isinstance(a, list) and isinstance(b, list):
        return a + b
    return b


def merge(env, other):
    out = dict(env)
    for k, v in other:
        out[k] = merge_key(out[k], v) if k in out else v
    return out


def flatten(v):
    return v if isinstance(v, str) else " ".join(v)


def define_name(n):
    return "".join(c.upper() if "a" <= c <= "z" else ("_" if c in "/.-:" else c) for c in n)


def closure(mods, names, name, seen):
    """documented order: dependencies first (through uses/depends, and providers of used names), the module itself last"""
    if name in seen:
        return []
    seen.add(name)
    m = mods[name]
    out = []
    for d in m["imports"]:
        if d[0] in ("ih", "is"):
            if d[1] not in mods:
                continue
            dep = d[2]
        else:
            dep = d[1]
        if dep in mods:
            out += closure(mods, names, dep, seen)
        for p in names:
            if dep in (mods[p].get("provides") or []):
                out += closure(mods, names, p, seen)
    return out + [name]


def early(v):
    f = lambda s: s.replace("${relpath}", ".").replace("${root}", ".")
    return f(v) if isinstance(v, str) else [f(x) for x in v]


def global_formula(p, b, G, cli):
    """built-ins + context envs root->builder + {builder, app} + module globals in reverse selection order + inserts + -D"""
    from .c03 import contexts_of, chain_of
    ctxs = contexts_of(p)
    chain = chain_of(ctxs, b["builder"])
    if any("\\$" in json.dumps(ctxs.get(c, {}).get("env") or {}) for c in chain):
        return None      # escaped references in context envs: early pass not emulated here
    if any(c not in ctxs for c in chain if c != "default"):
        return None
    env = {"in": "\\${in}", "out": "\\${out}", "build-dir": "build", "outfile": "${bindir}/${app}.elf",
           "project-root": G.get("project-root"), "root": ".", "LAZE_BIN": G.get("LAZE_BIN")}
    ctxenv = None
    for cn in reversed(chain):
        own = ctxs.get(cn, {}).get("env")
        own = None if own is None else [(k, early(v)) for k, v in own.items()]
        if ctxenv is None:
            ctxenv = dict(own) if own is not None else None
        elif own is not None:
            ctxenv = merge(ctxenv, own)
        # a context without env under a parent with env inherits the parent's env
    benv = dict(ctxenv or {})
    benv["builder"] = b["builder"]
    benv["app"] = b["app"]
    env = merge(env, list(benv.items()))
    for x in reversed(b["modules"]):
        env = merge(env, x["env_global"])
    app = b["modules"][0]
    rel = app.get("relpath") or "."
    env["relpath"] = rel
    comps = [c for c in rel.split("/") if c not in ("", ".")]
    env["relroot"] = "${root}" if not comps else "/".join(".." for _ in comps)
    env["modules"] = [x["name"] for x in b["modules"] if not x["name"].startswith("context::")]
    env["contexts"] = chain
    env = merge(env, list(cli.items()))
    for k in ("project-root", "LAZE_BIN"):
        # their built-in values are absolute paths of this run, taken from the observed env above: when -D assigns them too, the
        # observed value is no longer the built-in one and the formula has no base to start from — not compared
        if k in cli:
            env[k] = G.get(k)
    return env


def oracle(chk, p, r, m):
    if projrun.impl_status(r) != "ok":
        return
    for b in projcheck.built(r):
        if b.get("var_options"):
            chk.count("skipped:var_options")
            continue
        key = (b["builder"], b["app"])
        G = dict((k, v) for k, v in b["global_env"])
        names = [x["name"] for x in b["modules"]]
        mods = {x["name"]: x for x in b["modules"]}
        # -D is the last layer of the global env
        cli = {}
        for d in (p.get("args", {}).get("define") or []):
            if "+=" in d and "=" not in d.split("+=")[0]:
                k, v = d.split("+=", 1)
                cli[k] = merge_key(cli[k], [v]) if k in cli else [v]
            else:
                k, v = d.split("=", 1)
                cli[k] = v
        for k, v in cli.items():
            got = G.get(k)
            ok = (got == v) if isinstance(v, str) else (isinstance(got, list) and got[len(got) - len(v):] == v)
            if not ok:
                chk.fail_oracle("layers:define-not-last", f"{key}: -D gives {k} = {v!r} as the last layer but the link sees {got!r}", {"project": p})
        # the app's global env overrides what it pulled in
        app = mods[b["app"]]
        cli_keys = set(cli)
        for k, v in app["env_global"]:
            if k in cli_keys or k in ("relpath", "relroot", "modules", "contexts"):
                continue
            got = G.get(k)
            if isinstance(v, str) and got != v:
                chk.fail_oracle("layers:app-global-not-last", f"{key}: app defines {k}={v!r} globally but the link sees {got!r}", {"project": p})
            if isinstance(v, list) and not (isinstance(got, list) and got[len(got) - len(v):] == v):
                chk.fail_oracle("layers:app-global-not-last", f"{key}: app appends {v} to {k} but the link sees {got!r}", {"project": p})
        # the documented formula for the whole global env, from the YAML context envs and the dumped module layers
        want = global_formula(p, b, G, cli)
        if want is not None:
            bad = sorted(k for k in set(want) | set(G) if want.get(k) != G.get(k))
            if bad:
                chk.fail_oracle("layers:global-env", f"{key}: {[(k, G.get(k), want.get(k)) for k in bad[:3]]} (got, documented)", {"project": p, "build": list(key)})
            else:
                chk.count("global-formula-checked")
        # module envs: ((global + exports of the import closure) + notify) + local
        for x in b["modules"]:
            if x["srcdir"] is None or isinstance(x["env_flat"], dict):
                continue
            env = dict(G)
            cl = closure(mods, names, x["name"], set())
            notify_str = False
            for dn in cl:
                env = merge(env, mods[dn]["env_export"])
                if not x["notify_all"]:
                    cur = env.get("notify", [])
                    if isinstance(cur, str):
                        notify_str = True
                        break
                    env["notify"] = cur + [define_name(dn)]
            if notify_str:
                continue
            if x["notify_all"]:
                env["notify"] = [define_name(n) for n in names if not n.startswith("context::")]
            env = merge(env, x["env_local"])
            want = sorted([k, flatten(v)] for k, v in env.items())
            got = sorted(x["env_flat"])
            if want != got:
                dw, dg = dict(want), dict(got)
                bad = sorted(k for k in set(dw) | set(dg) if dw.get(k) != dg.get(k))
                chk.fail_oracle("layers:module-env", f"{key} module {x['name']}: {[(k, dg.get(k), dw.get(k)) for k in bad[:3]]} (got, documented)",
                                {"project": p, "build": list(key), "module": x["name"]})
            elif len(cl) > 1:
                chk.count("module-env-with-imports")


def nontrivial(chk, p, r, m):
    for b in projcheck.built(r):
        seen = {}
        for x in b["modules"]:
            for layer in ("env_global", "env_export", "env_local"):
                for k, v in x[layer]:
                    seen.setdefault(k, set()).add((layer, x["name"], isinstance(v, list)))
        if any(len(v) >= 2 and any(t[2] for t in v) for v in seen.values()):
            return True
    return False


def run(chk):
    n = 900 if chk.tier == "quick" else 10000
    chk.rule = ("random projects with the same variables defined as single/list values on contexts, module global/export/local envs, app envs and "
                "-D/+=; dumped flattened global env and every module env + the whole ninja file compared with the model's; oracle recomputes the "
                "documented formula ((global + exports of the import closure, dependencies first) + notify) + local from the dumped layers, and "
                "checks that -D and the app's global env are the last layers; non-trivial = a variable defined on >=2 module layers with a list "
                "on at least one; distinct by project hash")
    projcheck.campaign(chk, PROF, n, OBS, oracle, nontrivial)
    chk.assumptions = ["the formula oracle uses the implementation's loaded per-module envs and its unflattened global env (dump hook)"]
    return chk.finish()


def replay(chk, path):
    return projcheck.replay_project(chk, path, OBS, oracle)
