"""C12 — dependency resolution follows the documented greedy order."""
import copy, json, random
from . import common, projgen, projcheck, projrun
from .c01 import features, sat

PROF = projgen.profile(p_dep=0.75, p_soft=0.45, p_ifthen=0.3, p_provides=0.45, p_unique=0.25, p_conflicts=0.3,
                       p_shadow=0.45, p_ctx_select=0.35, p_ctx_disable=0.25, p_cli_select=0.55, p_cli_disable=0.3,
                       p_tasks=0.1, p_custom_build=0.03, p_download=0.03, p_varopts=0.05)
OBS = ("status", "decision", "modules")


def tree_of(p):
    par = {"default": None}
    for docs in p["files"].values():
        for d in docs:
            for c in (d.get("contexts") or []) + (d.get("builders") or []):
                par[c["name"]] = None if c["name"] == "default" else c.get("parent", "default")
    return par


def chain(par, c):
    out = []
    while c is not None and c in par and c not in out:
        out.append(c)
        c = par[c]
    return out


def defined_in(p):
    """module name -> set of contexts that define it (from the YAML)"""
    out = {}
    for kind, m, path in projcheck.yaml_modules(p):
        ctx = m.get("context", "default")
        for c in (ctx if isinstance(ctx, list) else [ctx]):
            out.setdefault(m["name"], set()).add(c)
    return out


def oracle(chk, p, r, m):
    if projrun.impl_status(r) != "ok":
        return
    par = tree_of(p)
    defs = defined_in(p)
    for b in r["dump"]:
        if b["decision"] != "built":
            continue
        mods = b["modules"]
        names = [x["name"] for x in mods]
        for f in features(b):
            chk.count("feature:" + f)
        if names[0] != b["app"]:
            chk.fail_oracle("order:app-first", f"{b['builder']}/{b['app']}: first module is {names[0]}", {"project": p})
        if len(set(names)) != len(names):
            chk.fail_oracle("order:duplicates", f"{b['builder']}/{b['app']}: {names}", {"project": p})
        ch = chain(par, b["builder"])
        for x in mods[1:]:
            if x["name"].startswith("context::"):
                continue
            cands = [c for c in ch if c in defs.get(x["name"], ())]
            if cands and x["context"] != cands[0]:
                chk.count("shadowed")
                chk.fail_oracle("order:shadowing", f"{b['builder']}/{b['app']}: module {x['name']} taken from {x['context']}, nearest is {cands[0]}",
                                {"project": p, "build": [b["builder"], b["app"]]})
            elif len(cands) > 1:
                chk.count("shadowed")


def nontrivial(chk, p, r, m):
    return any(b["decision"] == "built" and features(b) for b in r.get("dump", []))


def drop_failed_optional(p, r):
    """metamorphic partner: remove one optional dependency that certainly failed in every build
    (its target is selected nowhere and provided by no selected module) from the YAML"""
    blds = projcheck.built(r)
    if not blds:
        return None
    allsel = set()
    allprov = set()
    for b in blds:
        for x in b["modules"]:
            allsel.add(x["name"])
            allprov |= set(x.get("provides") or [])
    # a soft dep on a name nobody defines can never resolve in any build
    defs = set(defined_in(p))
    provided_anywhere = set()
    for kind, m, path in projcheck.yaml_modules(p):
        provided_anywhere |= set(m.get("provides") or []) | set(m.get("provides_unique") or [])
    for docs in p["files"].values():
        for d in docs:
            for c in (d.get("contexts") or []) + (d.get("builders") or []):
                provided_anywhere |= set(c.get("provides") or []) | set(c.get("provides_unique") or [])
    q = copy.deepcopy(p)
    for kind, m, path in projcheck.yaml_modules(q):
        for key in ("selects", "depends"):
            l = m.get(key)
            if not l:
                continue
            for i, e in enumerate(l):
                if isinstance(e, str) and e.startswith("?") and e[1:] not in defs and e[1:] not in provided_anywhere and not e[1:].startswith("-"):
                    # removing entries must not disturb '-name' removals
                    if any(isinstance(z, str) and z.startswith("-") for z in l):
                        continue
                    del l[i]
                    return q
    return None


def run(chk):
    n = 400 if chk.tier == "quick" else 12000
    chk.rule = ("random projects with raised shadowing/soft/if-then/provider density through the real CLI; compared with the model on "
                "the ORDERED module list of every build; oracle: app first, no duplicates, every module from the nearest defining "
                "context; metamorphic: deleting an optional dependency that cannot resolve leaves module lists and ninja file unchanged; "
                "non-trivial = a configured build has a failed optional / active if-then / provider / conflict feature; distinct by project hash")
    results = projcheck.campaign(chk, PROF, n, OBS, oracle, nontrivial)
    # metamorphic: an optional dependency that cannot be resolved leaves the build as if it had not been written
    pairs = []
    for p, r, m in results:
        if projrun.impl_status(r) == "ok":
            q = drop_failed_optional(p, r)
            if q is not None:
                pairs.append((p, r, q))
        if len(pairs) >= (80 if chk.tier == "quick" else 3000):
            break
    res2 = projrun.run_impls([q for _, _, q in pairs])
    for (p, r, q), r2 in zip(pairs, res2):
        chk.count("metamorphic:optional-deleted")
        chk.evaluations += 1
        a = {(b["builder"], b["app"]): (b["decision"], [x["name"] for x in b.get("modules", [])]) for b in r["dump"]}
        b2 = {(b["builder"], b["app"]): (b["decision"], [x["name"] for x in b.get("modules", [])]) for b in r2["dump"]}
        if projrun.impl_status(r2) != "ok" or a != b2 or projrun.canon_impl_ninja(r["ninja"]) != projrun.canon_impl_ninja(r2["ninja"]):
            # module envs differ legitimately? no: the removed dep never contributed a module
            chk.fail_oracle("order:optional-not-invisible", "deleting an unresolvable optional dependency changed the result",
                            {"project": p, "without_optional": q})
    chk.assumptions = ["shadowing oracle computes the nearest defining context from the YAML files"]
    return chk.finish()


def replay(chk, path):
    return projcheck.replay_project(chk, path, OBS, oracle)
