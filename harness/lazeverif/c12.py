"""C12 — dependency resolution follows the documented greedy order."""
import copy, json, random
from . import common, projgen, projcheck, projrun
from .c01 import features, sat

PROF = projgen.profile(p_dep=0.75, p_soft=0.45, p_ifthen=0.3, p_provides=0.45, p_unique=0.25, p_conflicts=0.3,
                       p_shadow=0.45, p_ctx_select=0.35, p_ctx_disable=0.25, p_cli_select=0.55, p_cli_disable=0.3,
                       p_tasks=0.1, p_custom_build=0.03, p_download=0.03, p_varopts=0.05)
OBS = ("status", "decision", "modules", "loaded")


def tree_of(p):
    par = {"default": None}
    for docs in p["files"].values():
        for d in docs:
            for c in (d.get("contexts") or []) + (d.get("builders") or []):
                par[c["name"]] = None if c["name"] == "default" else c.get("parent", "default")
    return par


def chain(par, c):
    out = []
    while c is not None and c in par and c not in out:
        out.append(c)
        c = par[c]
    return out


def defined_in(p):
    """module name -> set of contexts that define it (from the YAML)"""
    out = {}
    for kind, m, path in projcheck.yaml_modules(p):
        ctx = m.get("context", "default")
        for c in (ctx if isinstance(ctx, list) else [ctx]):
            out.setdefault(m["name"], set()).add(c)
    return out


def yaml_defs(p):
    """(name, context) -> module dict, only for files without any defaults (so the YAML entry is the whole module)"""
    out = {}
    has_defaults = any(d.get("defaults") for docs in p["files"].values() for d in docs)
    if has_defaults:
        return None
    for kind, m, path in projcheck.yaml_modules(p):
        ctx = m.get("context", "default")
        for c in (ctx if isinstance(ctx, list) else [ctx]):
            out[(m.get("name"), c)] = m
    return out


def leaf_optional_dropped(p, b, ydefs, par):
    """a soft dependency on a module that has no dependencies of its own, is not disabled and conflicts with nothing
    selected must be taken when it is reached"""
    mods = b["modules"]
    names = {x["name"] for x in mods}
    provided = {f for x in mods for f in (x.get("provides") or [])}
    conflicted = {c for x in mods for c in (x.get("conflicts") or [])}
    disabled0 = set(b.get("disabled0") or [])
    ch = chain(par, b["builder"])
    # names that get dependencies from elsewhere when they are selected (if-then deps of other modules)
    conditioned = {d[1] for x in mods for d in x["selects"] if d[0] in ("ih", "is")}
    for x in mods:
        for d in x["selects"]:
            if d[0] == "s" or (d[0] == "is" and d[1] in names):
                t = d[-1]
                if t in names or t in provided or t in conditioned:
                    continue
                ctx = next((c for c in ch if (t, c) in ydefs), None)
                if ctx is None:
                    continue
                y = ydefs[(t, ctx)]
                if y.get("selects") or y.get("depends") or y.get("tasks"):
                    continue
                yprov = set(y.get("provides") or []) | set(y.get("provides_unique") or [])
                yconf = set(y.get("conflicts") or []) | set(y.get("provides_unique") or [])
                if t in disabled0 or yprov & disabled0 or t in conflicted or yprov & conflicted or yconf & (names | provided):
                    continue
                return (x["name"], d, ctx)
    return None


def oracle(chk, p, r, m):
    if projrun.impl_status(r) != "ok":
        return
    par = tree_of(p)
    defs = defined_in(p)
    ydefs = yaml_defs(p)
    if ydefs is not None:
        for b in r["dump"]:
            if b["decision"] == "built":
                bad = leaf_optional_dropped(p, b, ydefs, par)
                if bad:
                    chk.fail_oracle("order:available-optional-dropped",
                                    f"{b['builder']}/{b['app']}: {bad[0]} optionally depends on {bad[1][-1]} (context {bad[2]}), which has no dependencies, is not disabled and conflicts with nothing selected, yet it is not in the build",
                                    {"project": p, "build": [b["builder"], b["app"]]})
                    break
    for b in r["dump"]:
        if b["decision"] != "built":
            continue
        mods = b["modules"]
        names = [x["name"] for x in mods]
        # providers in nearest-context-first order: the `spp*` modules (shape shadowed_provider) are leaves that are reached only
        # through the feature `spfeat`, so their order in the build is the order the providers of the feature were taken in
        sp = [x for x in mods if x["name"].startswith("spp") and "spfeat" in (x.get("provides") or [])]
        # ... provided nothing else reaches them: no selected module (nor the command line) names an spp module, and they have no
        # dependencies of their own (other shapes draw dependency names from all module names)
        named = any(d[-1].startswith("spp") or d[1].startswith("spp") for x in mods for d in x["selects"]) or \
            any(str(z).lstrip("?").startswith("spp") for z in (p.get("args", {}).get("select") or []))
        leafs = all(not x["selects"] for x in mods if x["name"].startswith("spp"))
        if len(sp) >= 2 and not named and leafs:
            chb = chain(par, b["builder"])
            pos = [chb.index(x["context"]) if x["context"] in chb else len(chb) for x in sp]
            chk.count("provider-order-checked")
            if pos != sorted(pos):
                chk.fail_oracle("order:providers-not-nearest-first",
                                f"{b['builder']}/{b['app']}: providers of spfeat taken in the order {[(x['name'], x['context']) for x in sp]}, "
                                f"builder chain {chb}: a provider from a farther context precedes one from a nearer context",
                                {"project": p, "build": [b["builder"], b["app"]]})
        for f in features(b):
            chk.count("feature:" + f)
        if names[0] != b["app"]:
            chk.fail_oracle("order:app-first", f"{b['builder']}/{b['app']}: first module is {names[0]}", {"project": p})
        if len(set(names)) != len(names):
            chk.fail_oracle("order:duplicates", f"{b['builder']}/{b['app']}: {names}", {"project": p})
        ch = chain(par, b["builder"])
        for x in mods[1:]:
            if x["name"].startswith("context::"):
                continue
            cands = [c for c in ch if c in defs.get(x["name"], ())]
            if cands and x["context"] != cands[0]:
                chk.count("shadowed")
                chk.fail_oracle("order:shadowing", f"{b['builder']}/{b['app']}: module {x['name']} taken from {x['context']}, nearest is {cands[0]}",
                                {"project": p, "build": [b["builder"], b["app"]]})
            elif len(cands) > 1:
                chk.count("shadowed")


def nontrivial(chk, p, r, m):
    return any(b["decision"] == "built" and features(b) for b in r.get("dump", []))


def bkey(b):
    """an app name may be defined in several contexts: a build is (builder, app name, the app's context)"""
    return (b["builder"], b["app"], b.get("app_context"))


def drop_failed_optional(p, r, rng=None):
    """metamorphic partner: remove one optional dependency `?x` that is unresolved in EVERY configured build
    (x selected nowhere, no selected module provides x). In those builds it "cannot be resolved", so they must not change."""
    blds = projcheck.built(r)
    if not blds:
        return None
    allsel, allprov = set(), set()
    for b in blds:
        for x in b["modules"]:
            allsel.add(x["name"])
            allprov |= set(x.get("provides") or [])
    # "cannot be resolved" must hold whatever else happens during resolution: a name that is merely absent from the final builds may
    # have been resolved and rolled back together with the module that asked for it (then its conflicts / if-then dependencies did
    # shape the outcome, and deleting it legitimately changes the build — found by the thorough tier). Sound candidates are names that
    # no module or app of the project defines and no module provides.
    defined_anywhere, provided_anywhere = set(), set()
    for kind, m, path in projcheck.yaml_modules(p):
        if m.get("name"):
            defined_anywhere.add(m["name"])
        for key in ("provides", "provides_unique"):
            provided_anywhere |= set(x for x in (m.get(key) or []) if isinstance(x, str))
    for docs in p["files"].values():
        for d in docs:
            for cx in (d.get("contexts") or []) + (d.get("builders") or []):
                for key in ("provides", "provides_unique"):
                    provided_anywhere |= set(x for x in (cx.get(key) or []) if isinstance(x, str))
            dm = (d.get("defaults") or {})
            for sect in dm.values():
                if isinstance(sect, dict):
                    for key in ("provides", "provides_unique"):
                        provided_anywhere |= set(x for x in (sect.get(key) or []) if isinstance(x, str))
    allsel |= defined_anywhere | {"context::" + c for c in tree_of(p)}
    allprov |= provided_anywhere
    q = copy.deepcopy(p)
    cands = []
    for kind, m, path in projcheck.yaml_modules(q):
        for key in ("selects", "depends"):
            l = m.get(key)
            if not l or any(isinstance(z, str) and z.startswith("-") for z in l):
                continue
            for i, e in enumerate(l):
                if isinstance(e, str) and e.startswith("?") and e[1:] not in allsel and e[1:] not in allprov and not e[1:].startswith("-"):
                    cands.append((l, i))
                elif isinstance(e, dict):
                    for cond, sub_l in e.items():
                        if len(sub_l) > 1:      # keep the map entry non-empty
                            for j, x in enumerate(sub_l):
                                if isinstance(x, str) and x.startswith("?") and x[1:] not in allsel and x[1:] not in allprov:
                                    cands.append((sub_l, j))
    ok = lambda x: isinstance(x, str) and x.startswith("?") and x[1:] not in allsel and x[1:] not in allprov
    sel = q.get("args", {}).get("select")
    if sel and len(sel) > 1:
        cands += [(sel, i) for i, x in enumerate(sel) if ok(x)]
    for docs in q["files"].values():
        for d in docs:
            for cx in (d.get("contexts") or []) + (d.get("builders") or []):
                l = cx.get("selects")
                if l and len(l) > 1:
                    cands += [(l, i) for i, x in enumerate(l) if ok(x)]
    if not cands:
        return None
    if isinstance(rng, int):          # enumerate: the rng-th candidate
        if rng >= len(cands):
            return None
        l, i = cands[rng]
    else:
        l, i = cands[0] if rng is None else rng.choice(cands)
    del l[i]
    return q


def run(chk):
    n = 1200 if chk.tier == "quick" else 12000
    chk.rule = ("random projects with raised shadowing/soft/if-then/provider density through the real CLI; compared with the model on "
                "the ORDERED module list of every build; oracle: app first, no duplicates, every module from the nearest defining "
                "context; metamorphic: deleting an optional dependency that cannot resolve leaves module lists and ninja file unchanged; "
                "non-trivial = a configured build has a failed optional / active if-then / provider / conflict feature; distinct by project hash")
    from . import grafts
    extra = [grafts.conflict_backout(projgen.gen_project(chk.seed + 1260, i, PROF), i) for i in range(16 if chk.tier == "quick" else 400)]
    results = projcheck.campaign(chk, PROF, n, OBS, oracle, nontrivial, extra_projects=extra)
    # metamorphic: an optional dependency that cannot be resolved leaves the build as if it had not been written
    pairs = []
    for p, r, m in results:
        if projrun.impl_status(r) == "ok":
            q = drop_failed_optional(p, r, random.Random(projcheck.phash(p)))
            if q is not None:
                pairs.append((p, r, q))
        if len(pairs) >= (80 if chk.tier == "quick" else 3000):
            break
    res2 = projrun.run_impls([q for _, _, q in pairs])
    for (p, r, q), r2 in zip(pairs, res2):
        chk.count("metamorphic:optional-deleted")
        chk.evaluations += 1
        # only builds configured in the original run are compared: there the dependency was unresolved
        a = {bkey(b): [x["name"] for x in b["modules"]] for b in r["dump"] if b["decision"] == "built"}
        b2 = {bkey(b): [x["name"] for x in b.get("modules", [])] for b in r2["dump"] if bkey(b) in a}
        if projrun.impl_status(r2) != "ok" or a != b2:
            chk.fail_oracle("order:optional-not-invisible", "deleting an optional dependency that is unresolved in every configured build changed those builds",
                            {"project": p, "without_optional": q, "before": {str(k): v for k, v in a.items()}, "after": {str(k): v for k, v in b2.items()}})
    chk.assumptions = ["shadowing oracle computes the nearest defining context from the YAML files"]

    def check_pair(p, r, q):
        r2 = projrun.run_impl(q)
        a = {bkey(b): [x["name"] for x in b["modules"]] for b in r["dump"] if b["decision"] == "built"}
        b2 = {bkey(b): [x["name"] for x in b.get("modules", [])] for b in r2["dump"] if bkey(b) in a}
        if projrun.impl_status(r2) != "ok" or a != b2:
            return ("order:optional-not-invisible", "deleting an optional dependency that is unresolved in every configured build changed those builds",
                    {"project": p, "without_optional": q, "before": {str(k): v for k, v in a.items()}, "after": {str(k): v for k, v in b2.items()}})
        return None

    def search():
        """model and implementation disagree on a module list: try every deletable optional dependency of those projects"""
        tried = 0
        for what, case in chk.disagree[:6]:
            p = case.get("project")
            if not p:
                continue
            r = projrun.run_impl(p)
            if projrun.impl_status(r) != "ok":
                continue
            for k in range(40):
                q = drop_failed_optional(p, r, k)
                if q is None:
                    break
                tried += 1
                f = check_pair(p, r, q)
                if f:
                    chk.search_note = f"found after {tried} directed deletions"
                    return f
        chk.search_note = f"{tried} directed optional-dependency deletions on the disagreeing projects, none changed a configured build"
        return None
    return chk.finish(search)


def replay(chk, path):
    return projcheck.replay_project(chk, path, OBS, oracle)
