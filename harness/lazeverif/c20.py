"""C20 — command-line selections equal their in-file spelling."""
import copy, json, os, random, shutil, tempfile
from . import common, projgen, projcheck, projrun

PROF = projgen.profile(p_cli_comma_define=0.15, p_uses_removal_marker=0.0, n_builders=(1, 3), n_apps=(1, 3), p_defaults=0.0, p_removes=0.0, p_cli_select=0.7, p_cli_disable=0.6, p_cli_define=0.7,
                       p_cli_builders=0.3, p_cli_apps=0.3, p_tasks=0.1, p_custom_build=0.05, p_download=0.03, p_ctxlist=0.0)
OBS = ("status", "decision", "modules", "loaded", "global_env", "module_env", "outfile", "tasks", "ninja")


def fingerprint(r):
    blds = sorted((b["builder"], b["app"], b["decision"], tuple(x["name"] for x in b.get("modules", []))) for b in r.get("dump", []))
    return (projrun.impl_status(r), r["ninja"], blds)


def sibling_define(d):
    """the other kind of assignment with the same text: V=x <-> V+=x"""
    if "+=" in d and "=" not in d.split("+=")[0]:
        k, v = d.split("+=", 1)
        return k + "=" + v
    k, v = d.split("=", 1)
    return k + "+=" + v


def run_variant(p, args, env=None, comma=False, before=None):
    """`before`: arguments of a run made FIRST in the same build directory (what it leaves behind — the cache — must not change
    what the command line means)"""
    os.makedirs(projrun.SCRATCH, exist_ok=True)
    root = os.path.join(projrun.SCRATCH, "c20-" + projcheck.phash(p)[:12] + "-" + str(os.getpid()))
    if os.path.exists(root):
        shutil.rmtree(root, ignore_errors=True)
    os.makedirs(root)
    try:
        projrun.write_project(root, p["files"])
        if before is not None:
            projrun.run_laze(root, dict(before))
            projrun.read_dump(root)
        a = dict(args)
        more = []
        if comma:
            for k, f in (("select", "-s"), ("disable", "-d")):
                if a.get(k):
                    more += [f, ",".join(a.pop(k))]
        r = projrun.run_laze(root, a, extra_env=env, more=tuple(more))
        r["dump"] = projrun.read_dump(root)
        nf = os.path.join(root, "build", "build-global.ninja")
        r["ninja"] = open(nf).read() if os.path.exists(nf) else None
        return r
    finally:
        shutil.rmtree(root, ignore_errors=True)


def rewrite_select(p, sel):
    q = copy.deepcopy(p)
    for kind, m, path in projcheck.yaml_modules(q):
        if kind == "apps":
            m["selects"] = list(sel) + list(m.get("selects") or [])
    return q


def rewrite_disable(p, dis):
    q = copy.deepcopy(p)
    for docs in q["files"].values():
        for d in docs:
            for b in d.get("builders") or []:
                b["disables"] = list(b.get("disables") or []) + list(dis)
            for c in d.get("contexts") or []:
                if c.get("is_builder"):
                    c["disables"] = list(c.get("disables") or []) + list(dis)
    return q


def rewrite_define(p, defs):
    """-D V=x / V+=x  ==  V defined at the end of every app's global env"""
    q = copy.deepcopy(p)
    for kind, m, path in projcheck.yaml_modules(q):
        if kind != "apps":
            continue
        env = m.setdefault("env", {})
        g = dict(env.get("global") or {})
        extra = {}
        for d in defs:
            if "+=" in d and (("=" not in d.split("+=")[0])):
                k, v = d.split("+=", 1)
                cur = extra.get(k)
                extra[k] = (cur if isinstance(cur, list) else []) + [v] if not isinstance(cur, str) else [v]
            else:
                k, v = d.split("=", 1)
                extra[k] = v
        # the CLI env is merged as ONE layer on top of everything: emulate by merging onto the app's own global env
        for k, v in extra.items():
            if isinstance(v, list) and k in g:
                return None      # `V+=x` on top of the app's own definition of V is a separate layer: no in-file spelling
            g[k] = v
        env["global"] = g
    return q


def simple_define(d):
    # values the in-file spelling can express identically: no variable references (early expansion differs), known variable names
    k = d.split("+=")[0] if "+=" in d and "=" not in d.split("+=")[0] else d.split("=")[0]
    v = d[len(k):].lstrip("+=")
    return "${" not in d and k not in ("relpath", "relroot", "modules", "contexts", "appdir") and "$(" not in d


def one(job):
    p, seed = job
    rng = random.Random(seed)
    a = p["args"]
    base = {k: v for k, v in a.items() if k in ("builders", "apps")}
    out = []
    ref = run_variant(p, a)
    # flag vs environment spelling
    env = {}
    a_env = dict(a)
    for k, var in (("select", "LAZE_SELECT"), ("disable", "LAZE_DISABLE"), ("builders", "LAZE_BUILDERS"), ("apps", "LAZE_APPS")):
        if a.get(k) and rng.random() < 0.7:
            env[var] = ",".join(a_env.pop(k))
    if a.get("define") and len(a["define"]) == 1 and "," not in a["define"][0]:
        env["LAZE_DEFINE"] = a_env.pop("define")[0]
    if env:
        out.append(("env", env, ref, run_variant(p, a_env, env=env)))
    if a.get("select") or a.get("disable"):
        out.append(("comma", None, ref, run_variant(p, a, comma=True)))
    # in-file spellings, one kind at a time
    if a.get("select"):
        a1 = dict(base, select=a["select"])
        out.append(("infile-select", a["select"], run_variant(p, a1), run_variant(rewrite_select(p, a["select"]), base)))
        if len(a["select"]) >= 2 and a["select"] != a["select"][::-1]:
            # the same, after a run with the selects in the opposite order in the same build directory (the order is part of the request)
            a0 = dict(base, select=a["select"][::-1])
            out.append(("infile-select-after-reversed-run", a["select"], run_variant(p, a1, before=a0), run_variant(rewrite_select(p, a["select"]), base)))
    if a.get("disable"):
        a1 = dict(base, disable=a["disable"])
        out.append(("infile-disable", a["disable"], run_variant(p, a1), run_variant(rewrite_disable(p, a["disable"]), base)))
    if a.get("define") and all(simple_define(d) for d in a["define"]):
        a1 = dict(base, define=a["define"])
        q = rewrite_define(p, a["define"])
        if q is not None:
            out.append(("infile-define", a["define"], run_variant(p, a1), run_variant(q, base)))
            # the same, after a run with the sibling assignments (V=x <-> V+=x) in the same build directory
            a0 = dict(base, define=[sibling_define(d) for d in a["define"]])
            out.append(("infile-define-after-sibling-run", a["define"], run_variant(p, a1, before=a0), run_variant(q, base)))
    return (p, [(k, x, fingerprint(r1), fingerprint(r2), (r2["stderr"] or "")[-200:]) for k, x, r1, r2 in out])


def worker(jobs):
    return [one(j) for j in jobs]


def run(chk):
    n = 500 if chk.tier == "quick" else 2000
    chk.rule = ("random projects x --select/--disable/-D lists; (1) model correspondence with these arguments; (2) metamorphic on the "
                "implementation: flags vs LAZE_* environment variables, repeated flags vs comma-separated, and flags vs the rewritten project "
                "(X prepended to every app's selects; Y added to every builder's disables; V at the end of every app's global env): ninja "
                "file byte-identical, same builds and module lists; non-trivial = the flag changes the generated file w.r.t. the flag-less "
                "run; distinct by project hash")
    projcheck.campaign(chk, PROF, 200 if chk.tier == "quick" else 5000, OBS, None, lambda c, p, r, m: False, label="corr:")
    jobs = [(projgen.gen_project(chk.seed + 2000, i, PROF), chk.seed * 31 + i) for i in range(n)]
    for p, res in common.parallel_map(worker, jobs):
        for kind, x, f1, f2, err in res:
            chk.evaluations += 1
            chk.count("pair:" + kind)
            if f1[0] != "ok" and f2[0] != "ok":
                continue
            if f1 != f2:
                what = "status" if f1[0] != f2[0] else ("builds" if f1[2] != f2[2] else "ninja")
                chk.fail_oracle(f"spelling:{kind}", f"{kind} {x}: {what} differs between the two spellings ({f1[0]} vs {f2[0]}; {err})",
                                {"project": p, "kind": kind, "value": x})
            else:
                chk.nontrivial.add(projcheck.phash(p) + kind)
                if len(chk.samples) < 2:
                    chk.samples.append({"kind": kind, "value": x, "args": p["args"]})
    chk.assumptions = ["flag/environment equivalence is clap behaviour: differential only",
                       "in-file define equivalence is claimed for values without ${...} (early expansion happens at the file, not at the CLI)"]
    return chk.finish()


def replay(chk, path):
    r0 = json.load(open(path))
    p = r0["case"]["project"]
    _, res = one((p, 1))
    for kind, x, f1, f2, err in res:
        print(kind, x, f1[0], f2[0], "same" if f1 == f2 else "DIFFERENT")
        if f1 != f2 and (f1[0] == "ok" or f2[0] == "ok"):
            chk.fail_oracle(f"spelling:{kind}", "differs", {"project": p, "kind": kind, "value": x})
    chk.note_case({"project": p}, True)
    return chk.finish()
