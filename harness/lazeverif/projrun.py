"""Run a generated project through the real laze CLI and through the Lean model; canonicalise and compare."""
import json, os, re, shutil, subprocess, tempfile
from . import common

SCRATCH = os.environ.get("LAZE_VERIF_SCRATCH", "/tmp/laze-verif-scratch")


# ------------------------------------------------------------------ project → files / IR

ALIASES = {"sharable": "shareable", "buildable": "is_builder", "disables": "conflicts"}


def as_written(x):
    """the in-memory project keeps an old spelling that serde still reads (`sharable`, `buildable`, a module's `disables`) under BOTH
    names, so that every oracle that reads the project sees the meaning; the dict lists the old names it uses in `_alias`. The FILE
    has the old spelling only (both at once would be a duplicate field)."""
    if isinstance(x, list):
        return [as_written(e) for e in x]
    if isinstance(x, dict):
        al = x.get("_alias")
        drop = {ALIASES[a] for a in (al if isinstance(al, list) else []) if isinstance(a, str) and a in ALIASES} | {"_alias"}
        return {k: as_written(v) for k, v in x.items() if k not in drop}
    return x


def as_meant(x):
    """the same project with the documented spelling only (what is sent to the model)"""
    if isinstance(x, list):
        return [as_meant(e) for e in x]
    if isinstance(x, dict):
        al = x.get("_alias")
        drop = {a for a in (al if isinstance(al, list) else []) if isinstance(a, str)} | {"_alias"}
        return {k: as_meant(v) for k, v in x.items() if k not in drop}
    return x


def write_project(d, files):
    for path, docs in files.items():
        p = os.path.join(d, path)
        os.makedirs(os.path.dirname(p), exist_ok=True)
        with open(p, "w") as f:
            # "@ROOT@" in a file stands for the absolute path of the project directory (absolute includes)
            f.write("\n---\n".join(json.dumps(as_written(doc), ensure_ascii=False) for doc in docs).replace("@ROOT@", os.path.realpath(d)))
            f.write("\n")


def pairs(d):
    return [[k, v] for k, v in d.items()]


def ir_export(l):
    if not isinstance(l, list):
        return l
    out = []
    for e in l:
        if isinstance(e, str):
            out.append(e)
        elif isinstance(e, dict) and e:
            k = list(e.keys())[-1]
            out.append([k, e[k]])
        else:
            out.append({"empty_map": True})
    return out


def ir_task(t):
    if not isinstance(t, dict):
        return t
    t = dict(t)
    if isinstance(t.get("export"), list):
        t["export"] = ir_export(t["export"])
    return t


def ir_rule(r):
    if not isinstance(r, dict):
        return r
    r = dict(r)
    if isinstance(r.get("export"), list):
        r["export"] = ir_export(r["export"])
    return r


def ir_entries(l):
    return [pairs(e) if isinstance(e, dict) else e for e in l]


def ir_context(c):
    if not isinstance(c, dict):
        return c
    c = dict(c)
    if isinstance(c.get("env"), dict):
        c["env"] = pairs(c["env"])
    if isinstance(c.get("var_options"), dict):
        c["var_options"] = pairs(c["var_options"])
    if isinstance(c.get("tasks"), dict):
        c["tasks"] = [[k, ir_task(v)] for k, v in c["tasks"].items()]
    if isinstance(c.get("rules"), list):
        c["rules"] = [ir_rule(r) for r in c["rules"]]
    return c


def yaml_scalar_text(x):
    if isinstance(x, bool):
        return "true" if x else "false"
    if isinstance(x, (int, float)):
        return str(x)
    return x


def ir_module(m):
    if not isinstance(m, dict):
        return m
    m = dict(m)
    for k in ("depends", "selects", "sources"):
        if isinstance(m.get(k), list):
            m[k] = ir_entries(m[k])
    if isinstance(m.get("env"), dict):
        m["env"] = {k: (pairs(v) if isinstance(v, dict) else v) for k, v in m["env"].items()}
    if isinstance(m.get("tasks"), dict):
        m["tasks"] = [[k, ir_task(v)] for k, v in m["tasks"].items()]
    if isinstance(m.get("build"), dict):
        # serde_yaml reads a scalar (1, true, 2.5) where a string is expected as its text: `out: [1]` names the output file `1`
        b = m["build"] = dict(m["build"])
        for k in ("out", "cmd"):
            if isinstance(b.get(k), list):
                b[k] = [yaml_scalar_text(x) for x in b[k]]
    return m


def ir_doc(doc):
    if not isinstance(doc, dict):
        return doc
    d = dict(doc)
    for k in ("contexts", "builders"):
        if isinstance(d.get(k), list):
            d[k] = [ir_context(c) for c in d[k]]
    for k in ("modules", "apps"):
        if isinstance(d.get(k), list):
            d[k] = [ir_module(m) for m in d[k]]
    if isinstance(d.get("defaults"), dict):
        d["defaults"] = [[k, ir_module(v)] for k, v in d["defaults"].items()]
    return d


def to_request(project, root, build_dir="build"):
    return {"op": "gen",
            "files": [[p, [ir_doc(as_meant(d)) for d in docs]] for p, docs in project["files"].items()],
            "project_file": "laze-project.yml", "build_dir": build_dir,
            "project_root": root, "laze_bin": os.path.realpath(common.LAZE),
            "want_insights": bool(project.get("args", {}).get("info_export")),
            "args": project.get("args", {})}


def cli_args(args):
    a = []
    if args.get("builders") is not None:
        a += ["-b", ",".join(args["builders"])]
    if args.get("apps") is not None:
        a += ["-a", ",".join(args["apps"])]
    for s in args.get("select") or []:
        a += ["-s", s]
    for s in args.get("disable") or []:
        a += ["-d", s]
    for s in args.get("define") or []:
        a += ["-D", s]
    if args.get("partition"):
        a += ["-P", args["partition"]]
    return a


# ------------------------------------------------------------------ running the implementation

def run_laze(d, args, extra_env=None, global_mode=True, timeout=20, task=None, cwd=None, generate_only=True, more=(), binary=None, retry=True):
    env = dict(os.environ)
    env.update({"LAZE_VERIF_DUMP": os.path.join(d, ".dump.jsonl")})
    for k in list(env):
        if k.startswith("LAZE_") and k not in ("LAZE_VERIF_DUMP",) and not (extra_env and k in extra_env):
            if k.startswith("LAZE_VERIF"):
                continue
            del env[k]
    if extra_env:
        env.update(extra_env)
    if args.get("local") is not None and cwd is None:
        global_mode, cwd = False, os.path.join(d, args["local"])
    cmd = [binary or common.LAZE, "-C", cwd or d, "build"]
    if global_mode:
        cmd.append("-g")
    if generate_only:
        cmd.append("-G")
    if args.get("build_dir"):
        cmd += ["-B", args["build_dir"]]          # relative to the project root, wherever laze is started
    cmd += list(more) + cli_args(args)
    if task:
        cmd += task
    # a run that exceeds the timeout is repeated once with a timeout 8 times as long before it counts as a hang: on a loaded
    # machine (other checks, cargo builds) a 50 ms run can take many seconds; a genuine hang is still one after the second wait.
    # The second attempt starts from what the first left on disk, exactly as a user's second invocation would.
    for attempt, t in enumerate((timeout, timeout * 8) if retry else (timeout,)):
        try:
            p = subprocess.run(cmd, env=env, stdout=subprocess.PIPE, stderr=subprocess.PIPE, timeout=t)
            return {"rc": p.returncode, "stdout": p.stdout.decode("utf-8", "replace"), "stderr": p.stderr.decode("utf-8", "replace"),
                    **({"retried_after_timeout": True} if attempt else {})}
        except subprocess.TimeoutExpired as e:
            last = e
            if attempt == 0 and not os.environ.get("LAZE_VERIF_NO_RETRY"):
                # the killed first attempt may have left a half-written build directory: a fresh one for the retry
                bd = os.path.join(d, "build")
                if generate_only and os.path.isdir(bd) and not args.get("_keep_build"):
                    shutil.rmtree(bd, ignore_errors=True)
                dump = os.path.join(d, ".dump.jsonl")
                if os.path.exists(dump):
                    os.remove(dump)
                continue
            break
    return {"rc": "timeout", "stdout": (last.stdout or b"").decode("utf-8", "replace"), "stderr": (last.stderr or b"").decode("utf-8", "replace")}


def read_dump(d):
    p = os.path.join(d, ".dump.jsonl")
    out = []
    if os.path.exists(p):
        for l in open(p):
            try:
                out.append(json.loads(l))
            except Exception:
                pass
        os.remove(p)
    return out


def read_insights(path):
    """the info-export file as nested lists of pairs (key order is part of what is compared); None when absent/unreadable"""
    if not os.path.exists(path):
        return None
    try:
        j = json.load(open(path), object_pairs_hook=lambda kv: ("obj", kv))
    except Exception as e:
        return ["unreadable", repr(e)[:200]]

    def obj(x):
        return x[1] if isinstance(x, tuple) and x[0] == "obj" else None
    top = obj(j)
    if top is None or len(top) != 1 or top[0][0] != "builds":
        return ["unexpected-shape", json.dumps(j)[:200]]
    out = []
    for b, apps in obj(top[0][1]) or []:
        al = []
        for a, info in obj(apps) or []:
            d = dict(obj(info) or [])
            al.append([a, {"outfile": d.get("outfile"),
                           "modules": [[n, dict(obj(mi) or []).get("deps", [])] for n, mi in (obj(d.get("modules")) or [])]}])
        out.append([b, al])
    return out


def run_impl(project, keep=False, extra_env=None):
    os.makedirs(SCRATCH, exist_ok=True)
    d = tempfile.mkdtemp(prefix="p", dir=SCRATCH)
    root = os.path.realpath(d)
    try:
        write_project(d, project["files"])
        args = project.get("args", {})
        local = args.get("local")
        info = os.path.join(root, ".info-export.json")
        more = ("--info-export", info) if args.get("info_export") else ()
        if args.get("_before") is not None and local is None:
            # a sibling command line first, in the same build directory; only what it leaves behind matters
            befores = args["_before"] if isinstance(args["_before"], list) else [args["_before"]]
            for ba in befores:
                if set(ba) <= {"_how"}:
                    continue
                bmore = ("--info-export", os.path.join(root, ".info-before.json")) if ba.get("info_export") else ()
                run_laze(d, {k: v for k, v in ba.items() if not k.startswith("_")}, extra_env=extra_env, more=bmore)
                read_dump(d)
        if local is not None:
            r = run_laze(d, args, extra_env=extra_env, global_mode=False, cwd=os.path.join(d, local), more=more)
        else:
            r = run_laze(d, args, extra_env=extra_env, more=more)
        r["dump"] = read_dump(d)
        if more:
            r["insights"] = read_insights(info)
        nf = os.path.join(d, args.get("build_dir") or "build", "build-local.ninja" if local is not None else "build-global.ninja")
        r["ninja"] = open(nf).read() if os.path.exists(nf) else None
        r["root"] = root
        return r
    finally:
        if not keep:
            shutil.rmtree(d, ignore_errors=True)


def run_impl_seq(project, arg_list):
    """the same project, several command lines one after the other in ONE directory (global mode): each result has the dump of that
    run (empty when it was served from the cache), the ninja file as it is after the run, and `hit`"""
    os.makedirs(SCRATCH, exist_ok=True)
    d = tempfile.mkdtemp(prefix="w", dir=SCRATCH)
    out = []
    try:
        write_project(d, project["files"])
        for args in arg_list:
            r = run_laze(d, args, retry=False, timeout=160)
            r["dump"] = read_dump(d)
            nf = os.path.join(d, "build", "build-local.ninja" if args.get("local") is not None else "build-global.ninja")
            r["ninja"] = open(nf).read() if os.path.exists(nf) else None
            r["root"] = os.path.realpath(d)
            r["hit"] = "laze: reading cache took" in (r["stdout"] or "")
            out.append(r)
        return out
    finally:
        shutil.rmtree(d, ignore_errors=True)


# ------------------------------------------------------------------ canonicalisation

def canon_impl_ninja(txt):
    ids = {}

    def rep(m):
        t = m.group(0)
        if t not in ids:
            ids[t] = f"#H{len(ids)}"
        return ids[t]
    return re.sub(r"\d{10,}", rep, txt)


def canon_model_ninja(txt):
    ids = {}
    out = []
    i, n = 0, len(txt)
    while i < n:
        ch = txt[i]
        if ch == "\x01":
            depth, j = 0, i
            while j < n:
                if txt[j] == "\x01":
                    depth += 1
                elif txt[j] == "\x02":
                    depth -= 1
                    if depth == 0:
                        break
                j += 1
            tok = txt[i:j + 1]
            if tok not in ids:
                ids[tok] = f"#H{len(ids)}"
            out.append(ids[tok])
            i = j + 1
        else:
            out.append(ch)
            i += 1
    return "".join(out)


def sort_order_only(txt):
    """after hash renumbering: sort the order-only section of every build block (paths that embed a hash are
    ordered by the real hash value in the implementation and by the symbolic token in the model)"""
    out = []
    for blk in txt.split("\n\n"):
        if blk.lstrip("\n").startswith("build") and " $\n    | $\n" in blk:
            head, rest = blk.split(" $\n    | $\n", 1)
            lines = rest.split("\n")
            # dependency lines end with " $" except the last one of the continuation
            k = 0
            while k < len(lines) and lines[k].startswith("    "):
                k += 1
            deps = [l.strip().removesuffix(" $").strip() for l in lines[:k]]
            always = [d for d in deps if d == "ALWAYS"]
            deps = sorted(d for d in deps if d != "ALWAYS") + always
            blk = head + " $\n    | $\n" + " $\n".join("    " + d for d in deps) + ("\n" + "\n".join(lines[k:]) if lines[k:] else "")
        out.append(blk)
    return "\n\n".join(out)


def impl_status(r):
    rc = r["rc"]
    if rc == 0:
        return "ok"
    if rc == 1:
        return "error"
    if rc == 2:
        return "usage"
    if rc == 101:
        return "panic"
    if rc == "timeout":
        return "hang"
    return f"crash({rc})"


def model_status(m):
    if m is None:
        return "crash(model)"
    if "ok" in m:
        return "ok"
    if "error" in m:
        return "error"
    if "panic" in m:
        return "panic"
    if "hang" in m:
        return "hang"
    return "bad:" + json.dumps(m)[:100]


def keyed(records):
    """(builder, app) -> record. An app name may be defined in several contexts (one record per definition and builder; at most
    one of them is eligible when the contexts are not nested): the records of one (builder, app) are ordered with `built` first and
    then by decision, the first gets the key (builder, app), the others (builder, app, i). Both sides are keyed the same way, so
    the comparison is one of multisets of decisions."""
    groups = {}
    for b in records:
        groups.setdefault((b["builder"], b["app"]), []).append(b)
    out = {}
    for k, g in groups.items():
        g = sorted(g, key=lambda b: (b["decision"] != "built", b["decision"]))
        for i, b in enumerate(g):
            out[k if i == 0 else k + (i,)] = b
    return out


def impl_builds(r):
    """(builder, app) -> dump record"""
    return keyed(r.get("dump", []))


def model_builds(m):
    return keyed(m["ok"]["builds"])


def impl_task_view(t):
    # dump: [name, "ok", task] | [name, "err", msg]
    if t[1] == "ok":
        tk = t[2]
        exp = tk.get("export")
        return [t[0], "ok", {"cmd": tk["cmd"], "build": tk["build"], "workdir": tk.get("workdir"),
                             "export": None if exp is None else [[e["variable"], e.get("content")] for e in exp]}]
    msg = t[2]
    m = re.match(r"required variable `(.*)` not set", msg)
    if m:
        return [t[0], "err", "var:" + m.group(1)]
    m = re.match(r"required module `(.*)` not selected", msg)
    if m:
        return [t[0], "err", "module:" + m.group(1)]
    return [t[0], "err", msg]


def model_task_view(t):
    if t[1][0] == "ok":
        return [t[0], "ok", t[1][1]]
    return [t[0], "err", t[1][1]]


LOADED_FIELDS = ("name", "context", "selects", "imports", "provides", "conflicts", "sources", "sources_optional", "srcdir", "relpath",
                 "is_build_dep", "is_global_build_dep", "build_dep_files", "has_build", "has_download", "notify_all",
                 "env_local", "env_export", "env_global")


def canon_loaded(mod, side):
    """the loaded view of a selected module (implementation: verif::module_json; model: Driver moduleJ), field by field"""
    out = {}
    for f in LOADED_FIELDS:
        v = mod.get(f)
        if f == "sources_optional" and v is not None:
            v = sorted([k, list(x)] for k, x in (v.items() if isinstance(v, dict) else v))
        out[f] = v
    return out


def compare(r, m, observables=("status", "decision", "modules", "loaded", "global_env", "module_env", "outfile", "tasks", "ninja")):
    """returns a list of (observable, description) differences between implementation run r and model answer m"""
    diffs = []
    si, sm = impl_status(r), model_status(m)
    if si != sm and m and si in (m.get("any") or []):
        sm = si          # several tuples fail; which failure wins is scheduling-dependent
    if si != sm:
        if "status" in observables:
            diffs.append(("status", f"impl {si} ({(r['stderr'] or '')[-300:].strip()!r}) vs model {sm} ({json.dumps(m)[:300] if m and 'ok' not in m else ''})"))
        return diffs
    if si != "ok":
        return diffs
    ib, mb = impl_builds(r), model_builds(m)
    if set(ib) != set(mb):
        diffs.append(("decision", f"configured tuples differ: impl-only {sorted(set(ib) - set(mb))} model-only {sorted(set(mb) - set(ib))}"))
        return diffs
    for k in ib:
        a, b = ib[k], mb[k]
        if a["decision"] != b["decision"]:
            if "decision" in observables:
                diffs.append(("decision", f"{k}: impl {a['decision']} model {b['decision']}"))
            continue
        if a["decision"] != "built":
            continue
        if "modules" in observables:
            am = [x["name"] for x in a["modules"]]
            if am != b["modules"]:
                diffs.append(("modules", f"{k}: impl {am} model {b['modules']}"))
                continue
        if "loaded" in observables and "loaded" in b:
            la = [canon_loaded(x, "impl") for x in a["modules"]]
            lb = [canon_loaded(x, "model") for x in b["loaded"]]
            for x, y in zip(la, lb):
                bad = [f for f in LOADED_FIELDS if x[f] != y[f]]
                if bad:
                    diffs.append(("loaded", f"{k} module {x['name']}: " + "; ".join(f"{f}: impl {x[f]!r} model {y[f]!r}" for f in bad[:3])))
                    break
            if len(la) != len(lb):
                diffs.append(("loaded", f"{k}: {len(la)} vs {len(lb)} loaded modules"))
        if "global_env" in observables:
            ga = [kv for kv in a["global_flat"] if kv[0] != "out"]
            gb = [kv for kv in b["global_flat"] if kv[0] != "out"]
            if ga != gb:
                da = {x[0]: x[1] for x in ga}
                db = {x[0]: x[1] for x in gb}
                bad = sorted(x for x in set(da) | set(db) if da.get(x) != db.get(x))
                diffs.append(("global_env", f"{k}: {[(x, da.get(x), db.get(x)) for x in bad[:3]]}"))
        if "module_env" in observables:
            mf = {n: f for n, f in b["module_flats"]}
            for mod in a["modules"]:
                if mod["srcdir"] is None:
                    continue
                fa = mod["env_flat"]
                if isinstance(fa, dict):
                    continue
                fb = mf.get(mod["name"])
                if fb is None:
                    continue            # the model stops at the first error; the impl may not have reached it
                if fa != fb:
                    da = {x[0]: x[1] for x in fa}
                    db = {x[0]: x[1] for x in fb}
                    bad = sorted(x for x in set(da) | set(db) if da.get(x) != db.get(x))
                    diffs.append(("module_env", f"{k} module {mod['name']}: {[(x, da.get(x), db.get(x)) for x in bad[:3]]}"))
        if "outfile" in observables and a["outfile"] != b["outfile"]:
            diffs.append(("outfile", f"{k}: impl {a['outfile']} model {b['outfile']}"))
        if "tasks" in observables:
            ta = sorted((impl_task_view(t) for t in a["tasks"]), key=lambda t: t[0])
            tb = sorted((model_task_view(t) for t in b["tasks"]), key=lambda t: t[0])
            if ta != tb:
                diffs.append(("tasks", f"{k}: impl {ta} model {tb}"))
    if "insights" in r and (m["ok"].get("insights") is not None or r["insights"] is not None):
        # the info-export file: builder -> app -> (outfile, module -> deps), key order included
        if r["insights"] != m["ok"].get("insights"):
            ia, im = r["insights"], m["ok"].get("insights")
            where = f"impl {json.dumps(ia)[:300]} model {json.dumps(im)[:300]}"
            if isinstance(ia, list) and isinstance(im, list):
                for x, y in zip(ia, im):
                    if x != y:
                        where = f"impl {json.dumps(x)[:400]} model {json.dumps(y)[:400]}"
                        break
            diffs.append(("insights", where))
    if "ninja" in observables:
        ca = sort_order_only(canon_impl_ninja(r["ninja"] or ""))
        cb = sort_order_only(canon_model_ninja(m["ok"]["ninja"]))
        if ca != cb:
            al, bl = ca.split("\n\n"), cb.split("\n\n")
            where = "length"
            for i in range(max(len(al), len(bl))):
                x = al[i] if i < len(al) else "<eof>"
                y = bl[i] if i < len(bl) else "<eof>"
                if x != y:
                    where = f"block {i}: impl {x!r} model {y!r}"
                    break
            diffs.append(("ninja", where))
    return diffs


# ------------------------------------------------------------------ batch driver

def run_model_batch(reqs):
    """model answers with the evalexpr table protocol"""
    table = {}
    answers = [None] * len(reqs)
    todo = list(range(len(reqs)))
    for _ in range(10):
        if not todo:
            break
        tl = [[k, v] for k, v in table.items()]
        res = common.model([dict(reqs[i], table=tl) for i in todo], timeout=1200)
        needs, nxt = set(), []
        for i, a in zip(todo, res):
            if a is not None and "need" in a and isinstance(a["need"], str):
                needs.add(a["need"])
                nxt.append(i)
            else:
                answers[i] = a
        if needs:
            needs = sorted(needs)
            vals = common.oracle([{"op": "evalexpr", "s": e} for e in needs])
            for e, v in zip(needs, vals):
                table[e] = v["ok"] if v and "ok" in v else None
        todo = nxt
    return answers


def worker(projects):
    out = []
    impls = [run_impl(p) for p in projects]
    reqs = [to_request(p, r["root"]) for p, r in zip(projects, impls)]
    mods = run_model_batch(reqs)
    for p, r, m in zip(projects, impls, mods):
        r = dict(r)
        r["stdout"] = r["stdout"][-2000:]
        out.append((p, r, m))
    return out


def impl_worker(projects):
    return [run_impl(p) for p in projects]


def run_impls(projects, nproc=None):
    return common.parallel_map(impl_worker, projects, nproc)


def run_projects(projects, nproc=None):
    return common.parallel_map(worker, projects, nproc)
