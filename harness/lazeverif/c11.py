"""C11 — apps are configured only for eligible builders (allow/block decision part;
the ancestor-eligibility part is checked on whole projects by the `gen` campaign, see c01.py)."""
import json, random
from . import common


def gen_case(seed, i):
    rng = random.Random(seed * 1000003 + i)
    n = rng.randint(1, 9)
    parents = [None] + [rng.randint(0, j - 1) if rng.random() < 0.95 else 0 for j in range(1, n)]
    # a deep chain now and then
    if rng.random() < 0.3:
        parents = [None] + list(range(0, n - 1))
    names = [f"c{j}" for j in range(n)] + ["unknown"]

    def lst():
        r = rng.random()
        if r < 0.25:
            return None
        k = rng.randint(0, min(4, len(names)))
        l = [rng.choice(names) for _ in range(k)]
        return l
    return {"op": "is_allowed", "parents": parents, "ctx": rng.randint(0, n - 1), "block": lst(), "allow": lst(), "id": i}


def chain(parents, c):
    out = []
    while c is not None:
        out.append(c)
        c = parents[c]
    return out


def spec(c):
    """the decision table of the statement; returns 'allowed' | 'blocked' | None (not specified)"""
    ch = [f"c{j}" for j in chain(c["parents"], c["ctx"])]

    def nearest(l):
        if l is None:
            return None
        for d, n in enumerate(ch):
            if n in l:
                return d
        return None
    a, b = nearest(c["allow"]), nearest(c["block"])
    if c["allow"] is None and c["block"] is None:
        return "allowed"
    if c["allow"] is not None and c["block"] is None:
        return "allowed" if a is not None else "blocked"
    if c["allow"] is None:
        return "blocked" if b is not None else "allowed"
    if a is not None and b is not None:
        if a == b:
            return None          # same context in both lists: not specified
        return "blocked" if b < a else "allowed"
    if a is not None:
        return "allowed"
    if b is not None:
        return "blocked"
    return None                  # both lists given, none matches: not specified by the statement


def canon(a):
    if a is None or "crash" in a or "panic" in a:
        return {"panic": True}
    return a


def worker(cases):
    # each case is asked twice on the implementation: as written and with both lists permuted
    perm = []
    for c in cases:
        rng = random.Random(c["id"] * 31 + 7)
        d = dict(c)
        for k in ("block", "allow"):
            if d[k] is not None:
                l = list(d[k]); rng.shuffle(l); d[k] = l
        perm.append(d)
    return list(zip(cases, common.oracle(cases), common.oracle(perm), common.model(cases), perm))


def nontrivial(c):
    if not c["allow"] or not c["block"]:
        return False
    ch = set(f"c{j}" for j in chain(c["parents"], c["ctx"]))
    return len(ch & set(c["allow"]) | ch & set(c["block"])) >= 2


def judge(chk, c, impl, implp, mod, perm):
    ci, cp, cm = canon(impl), canon(implp), canon(mod)
    chk.count("verdict:" + str(ci.get("ok")))
    sp = spec(c)
    if sp is None:
        chk.count("unspecified-by-statement")
    if "panic" in ci:
        chk.fail_oracle("is_allowed:panic", f"is_allowed panics on {c}", {"case": c, "impl": impl})
    elif sp is not None and ci.get("ok") != sp:
        chk.fail_oracle("is_allowed:nearest-listed-ancestor", f"{c}: implementation says {ci}, nearest listed ancestor says {sp}",
                        {"case": c, "impl": impl, "expected": sp})
    elif ci.get("ok") != cp.get("ok"):
        chk.fail_oracle("is_allowed:list-order", f"verdict depends on list order: {c} -> {ci}, permuted {perm} -> {cp}",
                        {"case": c, "impl": impl, "permuted": perm, "impl_permuted": implp})
    chk.disagreements_checked += 1
    if ci != cm:
        chk.fail_disagree(f"{c}: impl {ci} model {cm}", {"case": c, "impl": impl, "model": mod})


# ---------------------------------------------------------------- whole projects: eligibility of every (builder, app definition)

PROJ_PROF = None


def proj_prof():
    from . import projgen
    return projgen.profile(n_ctx=(2, 5), n_builders=(2, 4), n_apps=(2, 4), p_app_elsewhere=0.6, p_blockallow=0.6, p_app_dup=0.5, p_ctx_shuffle=0.3,
                           p_cli_builders=0.1, p_cli_apps=0.1, p_custom_build=0.0, p_download=0.0, p_tasks=0.0)


def project_oracle(chk, p, r, m):
    """every (builder, app definition) the implementation decided: configured only if the app's context is the builder or one of its
    ancestors and the nearest listed ancestor allows it; decided `not-ancestor` only if it is not"""
    from . import projrun, projcheck
    if projrun.impl_status(r) != "ok":
        return
    parent = {}
    for path, docs in p["files"].items():
        for d in docs:
            for c in (d.get("contexts") or []) + (d.get("builders") or []):
                parent[c["name"]] = c.get("parent", None if c["name"] == "default" else "default")

    def chain_names(c):
        out, seen = [], set()
        while c is not None and c not in seen:
            seen.add(c); out.append(c); c = parent.get(c)
        return out
    defs = {}
    for kind, mod, path in projcheck.yaml_modules(p):
        if kind == "apps":
            cs = mod.get("context", "default")
            for c in (cs if isinstance(cs, list) else [cs]):
                defs[(mod["name"], c)] = mod
    dflt = {}
    for path, docs in p["files"].items():
        for d in docs:
            if (d.get("defaults") or {}).get("app"):
                dflt[path] = True
    for b in r.get("dump", []):
        ch = chain_names(b["builder"])
        actx = b.get("app_context")
        anc = actx in ch
        chk.count("decision:" + b["decision"])
        if b["decision"] in ("built", "unresolved", "dep-cycle") and not anc:
            chk.fail_oracle("eligible:not-ancestor-configured", f"app {b['app']} of context {actx} is configured for builder {b['builder']} (chain {ch})",
                            {"project": p, "build": [b["builder"], b["app"], actx]})
            return
        if b["decision"] == "not-ancestor" and anc:
            mod = defs.get((b["app"], actx))
            chk.fail_oracle("eligible:ancestor-refused", f"app {b['app']} of context {actx} is refused for builder {b['builder']} as not-ancestor (chain {ch})",
                            {"project": p, "build": [b["builder"], b["app"], actx]})
            return
        mod = defs.get((b["app"], actx))
        if mod is not None and not dflt and anc:
            # allow/block decision by the nearest listed ancestor (lists written in the app itself; files with app defaults are skipped)
            bl, al = mod.get("blocklist"), mod.get("allowlist")
            depth = {c: i for i, c in enumerate(ch)}
            nb = min([depth[x] for x in (bl or []) if x in depth], default=None)
            na = min([depth[x] for x in (al or []) if x in depth], default=None)
            if al is None and bl is None:
                want = True
            elif bl is not None and al is None:
                want = nb is None
            elif al is not None and bl is None:
                want = na is not None
            elif na is None and nb is None:
                want = None          # both lists given, none matches: not specified by the statement (as in spec())
            elif na is None:
                want = False
            elif nb is None:
                want = True
            else:
                want = None if na == nb else (na < nb)
            got = b["decision"] != "blocked"
            if want is not None and got != want:
                chk.fail_oracle("eligible:allow-block", f"app {b['app']}@{actx} builder {b['builder']} (chain {ch}) blocklist {bl} allowlist {al}: decision {b['decision']}",
                                {"project": p, "build": [b["builder"], b["app"], actx]})
                return


def run(chk):
    n = 40000 if chk.tier == "quick" else 1000000
    chk.rule = ("random context trees (1-9 contexts, chains and bushy) x allow/block lists (absent, empty, unknown names, duplicates, "
                "any order) x context; each case also run with both lists shuffled; non-trivial = both lists non-empty and >=2 listed "
                "names on the context's parent chain; distinct by canonical JSON")
    cases = [gen_case(chk.seed, i) for i in range(n)]
    for c, impl, implp, mod, perm in common.parallel_map(worker, cases):
        chk.note_case({k: v for k, v in c.items() if k != "id"}, nontrivial(c))
        judge(chk, c, impl, implp, mod, perm)
    # whole projects through the real CLI: ancestor eligibility and allow/block lists of every (builder, app definition),
    # app names defined in several sibling contexts; decisions compared with the model's
    from . import projcheck
    np_ = 250 if chk.tier == "quick" else 6000
    projcheck.campaign(chk, proj_prof(), np_, ("status", "decision", "modules"), project_oracle,
                       lambda c, p, r, m: len({b["decision"] for b in r.get("dump", [])}) >= 2, label="proj:", seed_shift=1100)
    chk.assumptions = ["c11.spec() is the decision table of the statement, written independently of the model"]
    return chk.finish()


def replay(chk, path):
    r = json.load(open(path))
    if "project" in r.get("case", {}):
        from . import projcheck
        return projcheck.replay_project(chk, path, ("status", "decision", "modules"), project_oracle)
    c = r["case"]["case"]
    (c, impl, implp, mod, perm), = worker([c])
    print("impl :", canon(impl)); print("perm :", canon(implp)); print("model:", canon(mod)); print("spec :", spec(c))
    chk.note_case(c, True)
    judge(chk, c, impl, implp, mod, perm)
    return chk.finish()
