"""C11 — apps are configured only for eligible builders (allow/block decision part;
the ancestor-eligibility part is checked on whole projects by the `gen` campaign, see c01.py)."""
import json, random
from . import common


def gen_case(seed, i):
    rng = random.Random(seed * 1000003 + i)
    n = rng.randint(1, 9)
    parents = [None] + [rng.randint(0, j - 1) if rng.random() < 0.95 else 0 for j in range(1, n)]
    # a deep chain now and then
    if rng.random() < 0.3:
        parents = [None] + list(range(0, n - 1))
    names = [f"c{j}" for j in range(n)] + ["unknown"]

    def lst():
        r = rng.random()
        if r < 0.25:
            return None
        k = rng.randint(0, min(4, len(names)))
        l = [rng.choice(names) for _ in range(k)]
        return l
    return {"op": "is_allowed", "parents": parents, "ctx": rng.randint(0, n - 1), "block": lst(), "allow": lst(), "id": i}


def chain(parents, c):
    out = []
    while c is not None:
        out.append(c)
        c = parents[c]
    return out


def spec(c):
    """the decision table of the statement; returns 'allowed' | 'blocked' | None (not specified)"""
    ch = [f"c{j}" for j in chain(c["parents"], c["ctx"])]

    def nearest(l):
        if l is None:
            return None
        for d, n in enumerate(ch):
            if n in l:
                return d
        return None
    a, b = nearest(c["allow"]), nearest(c["block"])
    if c["allow"] is None and c["block"] is None:
        return "allowed"
    if c["allow"] is not None and c["block"] is None:
        return "allowed" if a is not None else "blocked"
    if c["allow"] is None:
        return "blocked" if b is not None else "allowed"
    if a is not None and b is not None:
        if a == b:
            return None          # same context in both lists: not specified
        return "blocked" if b < a else "allowed"
    if a is not None:
        return "allowed"
    if b is not None:
        return "blocked"
    return None                  # both lists given, none matches: not specified by the statement


def canon(a):
    if a is None or "crash" in a or "panic" in a:
        return {"panic": True}
    return a


def worker(cases):
    # each case is asked twice on the implementation: as written and with both lists permuted
    perm = []
    for c in cases:
        rng = random.Random(c["id"] * 31 + 7)
        d = dict(c)
        for k in ("block", "allow"):
            if d[k] is not None:
                l = list(d[k]); rng.shuffle(l); d[k] = l
        perm.append(d)
    return list(zip(cases, common.oracle(cases), common.oracle(perm), common.model(cases), perm))


def nontrivial(c):
    if not c["allow"] or not c["block"]:
        return False
    ch = set(f"c{j}" for j in chain(c["parents"], c["ctx"]))
    return len(ch & set(c["allow"]) | ch & set(c["block"])) >= 2


def judge(chk, c, impl, implp, mod, perm):
    ci, cp, cm = canon(impl), canon(implp), canon(mod)
    chk.count("verdict:" + str(ci.get("ok")))
    sp = spec(c)
    if sp is None:
        chk.count("unspecified-by-statement")
    if "panic" in ci:
        chk.fail_oracle("is_allowed:panic", f"is_allowed panics on {c}", {"case": c, "impl": impl})
    elif sp is not None and ci.get("ok") != sp:
        chk.fail_oracle("is_allowed:nearest-listed-ancestor", f"{c}: implementation says {ci}, nearest listed ancestor says {sp}",
                        {"case": c, "impl": impl, "expected": sp})
    elif ci.get("ok") != cp.get("ok"):
        chk.fail_oracle("is_allowed:list-order", f"verdict depends on list order: {c} -> {ci}, permuted {perm} -> {cp}",
                        {"case": c, "impl": impl, "permuted": perm, "impl_permuted": implp})
    chk.disagreements_checked += 1
    if ci != cm:
        chk.fail_disagree(f"{c}: impl {ci} model {cm}", {"case": c, "impl": impl, "model": mod})


def run(chk):
    n = 40000 if chk.tier == "quick" else 1000000
    chk.rule = ("random context trees (1-9 contexts, chains and bushy) x allow/block lists (absent, empty, unknown names, duplicates, "
                "any order) x context; each case also run with both lists shuffled; non-trivial = both lists non-empty and >=2 listed "
                "names on the context's parent chain; distinct by canonical JSON")
    cases = [gen_case(chk.seed, i) for i in range(n)]
    for c, impl, implp, mod, perm in common.parallel_map(worker, cases):
        chk.note_case({k: v for k, v in c.items() if k != "id"}, nontrivial(c))
        judge(chk, c, impl, implp, mod, perm)
    chk.assumptions = ["c11.spec() is the decision table of the statement, written independently of the model"]
    return chk.finish()


def replay(chk, path):
    r = json.load(open(path))
    c = r["case"]["case"]
    (c, impl, implp, mod, perm), = worker([c])
    print("impl :", canon(impl)); print("perm :", canon(implp)); print("model:", canon(mod)); print("spec :", spec(c))
    chk.note_case(c, True)
    judge(chk, c, impl, implp, mod, perm)
    return chk.finish()
