"""C17 — defaults, context lists and sub-directories mean what their expansion means."""
import copy, json, random
from . import common, projgen, projcheck, projrun

PROF = projgen.profile(p_subdir=0.7, p_defaults=0.6, p_ctxlist=0.4, p_multidoc=0.4, p_shadow=0.4, p_include=0.3, p_removes=0.3,
                       p_tasks=0.1, p_custom_build=0.03, p_download=0.03, p_varopts=0.05)
# for the inlining metamorphic test: defaults that CAN be written inline (no if-then maps, no early variables, no '-name' in defaults)
PROF_INLINE = projgen.profile(p_subdir=0.6, p_defaults=0.8, p_ctxlist=0.0, p_multidoc=0.3, p_include=0.0, p_removes=0.15, p_ifthen=0.0,
                              p_tasks=0.05, p_custom_build=0.0, p_download=0.0, p_varopts=0.05, p_optsrc=0.0)
OBS = ("status", "decision", "modules", "loaded", "global_env", "module_env", "outfile", "tasks", "ninja")
EARLY = ("${relpath}", "${srcdir}", "${root}")


def merge_env(d, o):
    out = dict(d)
    for k, v in o.items():
        out[k] = out[k] + v if isinstance(out.get(k), list) and isinstance(v, list) else v
    return out


def apply_defaults(d, m):
    """module/app `m` with the entries of defaults `d` written in front of its own; None if not expressible inline"""
    m = copy.deepcopy(m)
    if not d:
        return m
    for fld in ("depends", "selects", "uses"):
        for e in d.get(fld) or []:
            if not isinstance(e, str) or e.startswith("-"):
                return None
    dj = json.dumps(d.get("env", {}))
    if any(x in dj for x in EARLY) or "$(" in dj or "\\\\$" in dj:
        return None
    # laze turns the defaults' `depends` into selects+imports when they are converted
    dsel = list(d.get("selects") or []) + list(d.get("depends") or [])
    dimp = list(d.get("uses") or []) + list(d.get("depends") or [])
    if dsel:
        m["selects"] = dsel + list(m.get("selects") or [])
    if dimp:
        if any(not isinstance(e, str) for e in m.get("uses") or []):
            return None
        m["uses"] = dimp + list(m.get("uses") or [])
    if d.get("sources"):
        m["sources"] = list(d["sources"]) + list(m.get("sources") or [])
    for fld in ("conflicts", "provides", "provides_unique"):
        if d.get(fld):
            # laze appends conflicts, then provides, then provides_unique (twice): order inside the lists is irrelevant to the result
            m[fld] = list(d[fld]) + list(m.get(fld) or [])
    for fld in ("blocklist", "allowlist"):
        if d.get(fld) is not None:
            m[fld] = list(d[fld]) + list(m.get(fld) or [])
    if d.get("env"):
        env = m.setdefault("env", {})
        for layer, de in d["env"].items():
            env[layer] = merge_env(de, env.get(layer) or {})
    return m


def inline_defaults(p):
    """the manually expanded equivalent: the defaults (a file's own, on top of those inherited from the document that listed the file
    under subdirs) written in front of each module's own entries; None if not expressible"""
    import os
    q = copy.deepcopy(p)
    files = q["files"]
    # who lists whom: file -> (path, doc index) of the listing document; ambiguous when listed twice
    parent = {}
    for path, docs in files.items():
        base = os.path.dirname(path)
        for i, doc in enumerate(docs):
            kids = [os.path.normpath(os.path.join(base, sd, "laze.yml")) for sd in doc.get("subdirs") or []]
            kids += [os.path.normpath(os.path.join(base, inc)) for inc in doc.get("includes") or []]
            for k in kids:
                if k in parent:
                    return None
                parent[k] = (path, i)
    memo = {}
    BAD = object()

    def eff(path, i, key):
        """the effective defaults of document i of `path` for `key`; BAD if not expressible"""
        if (path, i, key) in memo:
            return memo[(path, i, key)]
        inherited = None
        if os.path.normpath(path) in parent:
            pp, pi = parent[os.path.normpath(path)]
            if "subdirs" in files[pp][pi]:          # only documents with sub-directories hand their defaults down
                inherited = eff(pp, pi, key)
        own = (files[path][i].get("defaults") or {}).get(key)
        if inherited is BAD:
            res = BAD
        elif own is not None:
            if own.get("context") is not None:
                res = BAD
            else:
                res = apply_defaults(inherited, own)
                res = BAD if res is None else res
        else:
            res = inherited
        memo[(path, i, key)] = res
        return res

    changed = False
    out = {}
    for path, docs in files.items():
        for i, doc in enumerate(docs):
            for key, kind in (("module", "modules"), ("app", "apps")):
                d = eff(path, i, key)
                if d is BAD:
                    return None
                if not d or not doc.get(kind):
                    continue
                ms = []
                for m in doc[kind]:
                    m2 = apply_defaults(d, m)
                    if m2 is None:
                        return None
                    changed = True
                    ms.append(m2)
                out[(path, i, kind)] = ms
    for (path, i, kind), ms in out.items():
        files[path][i][kind] = ms
    for docs in files.values():
        for doc in docs:
            doc.pop("defaults", None)
    return q if changed else None


def split_context_lists(p):
    q = copy.deepcopy(p)
    changed = False
    for path, docs in q["files"].items():
        for doc in docs:
            for kind in ("modules", "apps"):
                if not doc.get(kind):
                    continue
                new = []
                for m in doc[kind]:
                    if isinstance(m.get("context"), list):
                        changed = True
                        for c in m["context"]:
                            new.append(dict(copy.deepcopy(m), context=c))
                    else:
                        new.append(m)
                doc[kind] = new
    return q if changed else None


def malformed(p, rng):
    """(variant project, kind) that must be rejected with exit status 1"""
    q = copy.deepcopy(p)
    root = q["files"]["laze-project.yml"][0]
    kind = rng.choice(["dup-context", "dup-module", "unknown-context", "unknown-parent"])
    if kind == "dup-context":
        root["contexts"].append({"name": rng.choice([c["name"] for c in root["contexts"] + root["builders"]])})
    elif kind == "unknown-parent":
        root["contexts"].append({"name": "orphan", "parent": "nosuchparent"})
    else:
        mods = [m for k, m, path in projcheck.yaml_modules(q) if k == "modules"]
        if not mods:
            return None, kind
        m = rng.choice(mods)
        if kind == "dup-module":
            for docs in q["files"].values():
                for d in docs:
                    if m in (d.get("modules") or []):
                        d["modules"].append(copy.deepcopy(m))
        else:
            m["context"] = "nosuchcontext"
    return q, kind


def drop_repeated_listings(p):
    """the same project with every repeated listing of a lazefile removed (first listing in load order kept): each lazefile is loaded
    once, so the repeated listing must mean nothing"""
    import os
    q = copy.deepcopy(p)
    seen, changed = set(), False
    order = ["laze-project.yml"] + [f for f in q["files"] if f != "laze-project.yml"]
    for path in order:
        base = os.path.dirname(path)
        for doc in q["files"][path]:
            for key, suffix in (("subdirs", "/laze.yml"), ("includes", "")):
                if not isinstance(doc.get(key), list):
                    continue
                keep = []
                for x in doc[key]:
                    tgt = os.path.normpath(os.path.join(base, x + suffix))
                    if tgt in seen:
                        changed = True
                        continue
                    seen.add(tgt)
                    keep.append(x)
                if keep:
                    doc[key] = keep
                else:
                    del doc[key]
    q["files"] = {f: [d for d in docs] for f, docs in q["files"].items()}
    return q if changed else None


def fp(r):
    return (projrun.impl_status(r), r["ninja"],
            sorted((b["builder"], b["app"], b["decision"], tuple(x["name"] for x in b.get("modules", []))) for b in r.get("dump", [])))


def meta_job(job):
    kind, p, seed = job
    rng = random.Random(seed)
    if kind == "inline":
        q = inline_defaults(p)
    elif kind == "ctxlist":
        q = split_context_lists(p)
    elif kind == "once":
        q = drop_repeated_listings(p)
    else:
        q, what = malformed(p, rng)
        if q is None:
            return (kind, p, None, None, None)
        r = projrun.run_impl(q)
        return (kind, p, q, what, {"status": projrun.impl_status(r), "stderr": r["stderr"][-200:]})
    if q is None:
        return (kind, p, None, None, None)
    return (kind, p, q, fp(projrun.run_impl(p)), fp(projrun.run_impl(q)))


def worker(jobs):
    return [meta_job(j) for j in jobs]


def loaded_changed(chk, p, r, m):
    return any(doc.get("defaults") or any(isinstance(x.get("context"), list) for k in ("modules", "apps") for x in (doc.get(k) or []))
               for docs in p["files"].values() for doc in docs) and projrun.impl_status(r) == "ok"


def run(chk):
    n = 600 if chk.tier == "quick" else 6000
    chk.rule = ("random project trees (nested subdirs, multi-document files, defaults at several levels, context lists, includes, '-name' removals); "
                "(1) the loader+generator model vs the real CLI on dumps and ninja file; (2) metamorphic on the implementation: project vs its "
                "manually inlined defaults, project vs context lists written once per context, project listing a lazefile twice (two documents, one list, "
                "another file) vs the repeated listing removed: identical ninja file and module lists; (3) duplicate "
                "context names, duplicate module names in a context, unknown contexts and unknown parents must be rejected with exit status 1; "
                "non-trivial = defaults or a context list actually change a loaded module and the project is accepted; distinct by project hash")
    projcheck.campaign(chk, PROF, n, OBS, None, loaded_changed)
    k = 150 if chk.tier == "quick" else 1500
    jobs = [("inline", projgen.gen_project(chk.seed + 1700, i, PROF_INLINE), i) for i in range(4 * k)]
    jobs += [("ctxlist", projgen.gen_project(chk.seed + 1750, i, PROF), i) for i in range(k)]
    jobs += [("once", projgen.gen_project(chk.seed + 1770, i, projgen.profile(p_dup_listing=1.0, p_subdir=0.6, p_include=0.4)), i) for i in range(k)]
    jobs += [("reject", projgen.gen_project(chk.seed + 1790, i, projgen.DEFAULT_PROFILE), chk.seed * 17 + i) for i in range(k // 2)]
    pairs = [("corpus:" + c["signature"], c["project"], c["expanded"]) for c in common.load_corpus("C17") if c.get("pair")]
    for sig, p, q in pairs:
        a, b = fp(projrun.run_impl(p)), fp(projrun.run_impl(q))
        chk.evaluations += 1
        chk.count("pair:corpus")
        if a != b:
            chk.fail_oracle(sig.split(":", 1)[1], "the project and its manual expansion differ", {"project": p, "expanded": q})
    for kind, p, q, a, b in common.parallel_map(worker, jobs):
        if q is None:
            chk.count(f"{kind}:not-applicable")
            continue
        chk.evaluations += 1
        chk.count(f"pair:{kind}")
        if kind == "reject":
            if b["status"] != "error":
                chk.fail_oracle(f"loader:not-rejected:{a}", f"{a}: exit status class {b['status']} ({b['stderr']!r})", {"project": q, "kind": a})
            continue
        if a[0] != "ok" and b[0] != "ok":
            continue
        if a != b:
            what = "status" if a[0] != b[0] else ("builds/modules" if a[2] != b[2] else "ninja")
            chk.fail_oracle(f"loader:{kind}-not-equivalent", f"{kind}: {what} differs between the project and its manual expansion ({a[0]} vs {b[0]})",
                            {"project": p, "expanded": q})
        else:
            chk.nontrivial.add(projcheck.phash(p) + kind)
    # defaults of an IMPORTED lazefile (reached through build/imports/<name> when symlinked): after the file is edited, modules under them
    # must behave as the defaults now written — the same statements a load with an empty build directory produces (oracle only: imports
    # are outside the model)
    from . import c08
    for job, out in common.parallel_map(c08.import_worker, [(chk.seed + 177, i) for i in range(6 if chk.tier == "quick" else 120)]):
        c08.judge_import(chk, job, out, prefix="loader")
    chk.assumptions = ["inlining is only attempted for defaults that can be written inline (plain-string dependency entries, no ${relpath}/${srcdir}/${root} in default env values)"]
    return chk.finish()


def replay(chk, path):
    r0 = json.load(open(path))
    c = r0["case"]
    if "expanded" in c:
        a, b = fp(projrun.run_impl(c["project"])), fp(projrun.run_impl(c["expanded"]))
        print(a[0], b[0], "same" if a == b else "DIFFERENT")
        if a != b and (a[0] == "ok" or b[0] == "ok"):
            chk.fail_oracle("loader:replay-not-equivalent", "differs", c)
        chk.note_case({"project": c["project"]}, True)
        return chk.finish()
    return projcheck.replay_project(chk, path, OBS, None)
