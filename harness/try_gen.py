import sys, json, collections
sys.path.insert(0, "/verif/harness")
from lazeverif import common, projgen, projrun
seed, n = int(sys.argv[1]), int(sys.argv[2])
projects = [projgen.gen_project(seed, i) for i in range(n)]
res = projrun.run_projects(projects)
stat = collections.Counter(); dc = collections.Counter()
shown = 0
for i, (p, r, m) in enumerate(res):
    st = projrun.impl_status(r)
    stat[st + "/" + projrun.model_status(m)] += 1
    d = projrun.compare(r, m)
    for k, _ in d: dc[k] += 1
    if d and shown < int(sys.argv[3]) if len(sys.argv) > 3 else 3:
        shown += 1
        print("CASE", i, d[:2])
        if len(sys.argv) > 4: print(json.dumps(p))
        if st not in ("ok",): print(r["stderr"][-400:])
print(stat); print(dc)
