"""model-vs-model differential: the original driver binary against the refactored one, on the same
requests (projects from projgen; the real laze only supplies the project root and the evalexpr oracle)."""
import sys, json, collections
sys.path.insert(0, "/tmp/agent-refactor/harness")
from lazeverif import common, projgen, projrun

ORIG = "/tmp/agent-refactor/orig/lazemodel.orig"
NEW = "/tmp/agent-refactor/lean/.lake/build/bin/lazemodel"


def worker(projects):
    reqs = [projrun.to_request(p, "/tmp/agent-refactor/scratch/fixedroot") for p in projects]
    out = []
    for binp in (ORIG, NEW):
        common.MODEL = binp
        out.append(projrun.run_model_batch(reqs))
    return list(zip(out[0], out[1]))


seed, n = int(sys.argv[1]), int(sys.argv[2])
projects = [projgen.gen_project(seed, i) for i in range(n)]
res = common.parallel_map(worker, projects)
c = collections.Counter()
for i, (a, b) in enumerate(res):
    same = json.dumps(a, sort_keys=True) == json.dumps(b, sort_keys=True)
    c["same" if same else "DIFF"] += 1
    if a is None or b is None:
        c["none"] += 1
    if not same and c["DIFF"] <= 3:
        print("DIFF", i, json.dumps(a)[:600], "\n  vs", json.dumps(b)[:600])
print(c)
