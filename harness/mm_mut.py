"""model-vs-model differential on MUTATED requests (error paths the project generator never reaches)."""
import sys, json, collections, random, copy
sys.path.insert(0, "/tmp/agent-refactor/harness")
from lazeverif import common, projgen, projrun
ORIG = "/tmp/agent-refactor/orig/lazemodel.orig"
NEW = "/tmp/agent-refactor/lean/.lake/build/bin/lazemodel"

def docs_of(req): return [d for _, ds in req["files"] for d in ds]
def ctxs_of(req): return [c for d in docs_of(req) for k in ("contexts", "builders") for c in (d.get(k) or [])]
def mods_of(req): return [m for d in docs_of(req) for k in ("modules", "apps") for m in (d.get(k) or [])]

def mutate(req, rng):
    req = copy.deepcopy(req)
    ctxs, mods, docs = ctxs_of(req), mods_of(req), docs_of(req)
    k = rng.randrange(30)
    c = rng.choice(ctxs) if ctxs else None
    m = rng.choice(mods) if mods else None
    d = rng.choice(docs)
    rules = [r for x in ctxs for r in (x.get("rules") or [])]
    if k == 0 and rules:
        name = rng.choice(["LINK", "CC", "GIT_DOWNLOAD", "GIT_PATCH", "AS", "POST_LINK"])
        for x in ctxs:
            if x.get("rules"): x["rules"] = [r for r in x["rules"] if r["name"] != name]
    elif k == 1 and rules: rng.choice(rules).pop("out", None)
    elif k == 2 and c: c["parent"] = rng.choice(["nosuchctx"] + [x["name"] for x in ctxs])
    elif k == 3 and c: d["contexts"] = (d.get("contexts") or []) + [copy.deepcopy(c)]
    elif k == 4 and m: d["modules"] = (d.get("modules") or []) + [copy.deepcopy(m)]
    elif k == 5 and m: m["context"] = rng.choice(["nosuchctx", ["default", "nosuchctx"], [x["name"] for x in ctxs]])
    elif k == 6 and m: m.setdefault(rng.choice(["depends", "selects"]), []).append(rng.choice(["", [["m0", ["", "x"]]], [["m1", ["?q", "-m2"]]], "-m1", "?"]))
    elif k == 7 and m: m.setdefault("sources", []).append(rng.choice(["noext", "x.zz", ".hidden", "a/..", "${nosuch}.c", "${unclosed.c", [["m0", ["opt.c", "noext"]]]]))
    elif k == 8 and m: m["download"] = rng.choice([{"git": {"url": "u"}}, {"git": {"url": "u", "commit": "c"}, "patches": ["p"]}, {"git": {"url": "u", "commit": "c"}}, {"url": "x"}])
    elif k == 9: (rng.choice([c, None]) or {}).setdefault("env", []).append(["notify", rng.choice(["single", ["l"]])])
    elif k == 10 and m: m.setdefault("env", {}).setdefault(rng.choice(["export", "global", "local"]), []).append(rng.choice([["notify", "single"], ["notify", ["x"]], ["V", "${unclosed"], ["outfile", "${nosuch}"], ["W", ["${a", "b"]]]))
    elif k == 11: d.setdefault("defaults", []).append([rng.choice(["module", "app"]), rng.choice([{"context": ["default", "x"]}, {"depends": [""]}, {"sources": ["d.c"], "env": {"local": [["Q", "${unclosed"]]}}, {"context": "nosuchctx"}, {"download": {"git": {"url": "u", "commit": "c"}}}])])
    elif k == 12: d["apps"] = None
    elif k == 13: d["modules"] = None
    elif k == 14 and c: c.setdefault("tasks", []).append(["tt", {"cmd": [rng.choice(["${unclosed", "ok ${nosuch}", "$(1+"])], "workdir": rng.choice([None, "${unclosed", "w"]), "export": rng.choice([None, ["A", ["B", "${nosuch}"]], [["C", "${unclosed"]]])}])
    elif k == 15 and m: m.setdefault("tasks", []).append(["tt", {"cmd": [rng.choice(["${unclosed", "ok ${nosuch}", "fine"])], "required_vars": rng.choice([None, ["nosuchvar"]]), "required_modules": rng.choice([None, ["nosuchmod"]])}])
    elif k == 16 and m: m["srcdir"] = rng.choice(["${unclosed", "build/dl/dl_m2/sub", "${nosuch}/x", "/abs"])
    elif k == 17 and c: c.setdefault("var_options", []).append([rng.choice(["CFLAGS", "ZZ"]), {"from": rng.choice(["nosuch", "CFLAGS", "DEFS"])}])
    elif k == 18: d.setdefault(rng.choice(["includes", "subdirs"]), []).append(rng.choice(["nosuchfile.yml", "laze-project.yml", "."]))
    elif k == 19 and m: m["is_global_build_dep"] = True; m["is_build_dep"] = rng.random() < 0.5
    elif k == 20 and len(mods) > 1:
        a, b = rng.sample(mods, 2)
        for x, y in ((a, b), (b, a)):
            if x.get("name") and y.get("name"):
                x["is_build_dep"] = True; x.setdefault("depends", []).append(y["name"])
    elif k == 21 and m: m["build"] = rng.choice([{"cmd": ["${unclosed"]}, {"cmd": ["c"], "out": ["${unclosed"]}, {"cmd": ["c ${in}"], "out": ["o1", "o2"], "gcc_deps": "x.d"}, {"cmd": []}])
    elif k == 22 and rules:
        r = rng.choice(rules); r[rng.choice(["cmd", "gcc_deps"])] = rng.choice(["${unclosed", "x ${nosuch} $(1+1)"])
    elif k == 23 and rules:
        r = rng.choice(rules); r["export"] = rng.choice([["A"], [["B", "${unclosed"]], [["C", "v"], "CFLAGS"]]); r["shareable"] = rng.random() < 0.5
    elif k == 24 and c: c.setdefault("rules", []).append({"name": "POST_LINK", "cmd": "pl ${in} ${out}", **({"out": "bin"} if rng.random() < 0.6 else {})})
    elif k == 25 and m: m.pop("name", None)
    elif k == 26 and c: c["name"] = rng.choice(["default", "c1", "b0"])
    elif k == 27 and m: m["notify_all"] = True
    elif k == 28 and c: c[rng.choice(["selects", "disables", "provides", "provides_unique"])] = rng.choice([[""], ["m0"], ["?m1", "f0"], ["context::default"]])
    elif k == 29 and m: m["is_build_dep"] = True; m["sources"] = (m.get("sources") or []) + ["bd.c"]
    return req

def worker(items):
    out = []
    for binp in (ORIG, NEW):
        common.MODEL = binp
        out.append(projrun.run_model_batch(items))
    return list(zip(out[0], out[1]))

seed, n = int(sys.argv[1]), int(sys.argv[2])
prof = projgen.profile(p_download=0.25, p_custom_build=0.2, p_defaults=0.5, p_tasks=0.5, p_build_dep=0.3, p_global_build_dep=0.15,
                       p_cli_builders=0.6, p_cli_apps=0.6, p_notify_all=0.2, p_postlink=0.3, p_include=0.3, p_multidoc=0.3)
rng = random.Random(seed)
reqs = []
for i in range(n):
    r = projrun.to_request(projgen.gen_project(seed, i, prof), "/tmp/agent-refactor/scratch/fixedroot")
    for _ in range(rng.choice([1, 1, 2, 3])):
        try: r = mutate(r, rng)
        except Exception: pass
    reqs.append(r)
res = common.parallel_map(worker, reqs)
c = collections.Counter(); kinds = collections.Counter()
for i, (a, b) in enumerate(res):
    same = json.dumps(a, sort_keys=True) == json.dumps(b, sort_keys=True)
    c["same" if same else "DIFF"] += 1
    if a is None or b is None: c["none"] += 1
    if isinstance(a, dict):
        for k in ("error", "panic", "hang", "need"):
            if k in a: kinds[k + ":" + str(a[k])[:60]] += 1
        if "ok" in a:
            for bd in a["ok"]["builds"]: kinds["decision:" + bd["decision"]] += 1
    if not same and c["DIFF"] <= 3:
        print("DIFF", i, json.dumps(a)[:600], "\n  vs", json.dumps(b)[:600])
print(c)
for k, v in sorted(kinds.items()): print("  %6d %s" % (v, k))
